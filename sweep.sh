#!/bin/bash
# thorough-tier sweep over every claimed property (background use: vp run -- ./sweep.sh [budget_s] [seed])
cd "$(dirname "$0")"
B=${1:-300}
export VERIF_SEED=${2:-7}
for p in C01 C02 C03 C04 C05 C07 C08 C09 C10 C12 C13 C14 C15 C16 C17 C19 C20 C18; do
  echo "=== $p $(date +%T)"
  SIM_BUDGET_S=$B ./simcheck check $p --tier thorough 2>&1 | cut -c1-600 | tail -8
  echo "exit=$?"
done
