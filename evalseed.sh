#!/bin/bash
# usage: evalseed.sh <patch.diff> <PROP> [budget_s] [tier]   -- applies a seeded change to /repo, runs the check, reverts
set -u
P=$1; PROP=$2; B=${3:-45}; T=${4:-quick}
cd /repo && git diff --quiet || { echo "/repo is dirty"; exit 3; }
git -C /repo apply "$P" || { echo "patch does not apply"; exit 3; }
cd /verif && SIM_BUDGET_S=$B ./simcheck check $PROP --tier $T 2>&1 | cut -c1-500 | tail -6
rc=${PIPESTATUS[0]}
git -C /repo checkout -- . ; git -C /repo clean -fdq ; git -C /repo status --short
echo "check-exit=$rc"
