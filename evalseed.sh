#!/bin/bash
# usage: evalseed.sh <patch.diff> <PROP> [budget_s] [tier]
# Runs the registered check of PROP against a scratch copy of /repo with the seeded change applied
# (SIM_REPO; /repo itself and /verif/evidence are left alone, so checks running in the background
# against /repo are not disturbed). Equivalent to: git -C /repo apply <patch>; ./simcheck check
# <PROP>; git -C /repo checkout -- .
set -u
P=$(readlink -f "$1"); PROP=$2; B=${3:-45}; T=${4:-quick}
D=$(mktemp -d /tmp/evalseed.XXXXXX)
trap 'rm -rf "$D"' EXIT
rsync -a --exclude .git /repo/ "$D/repo/"
( cd "$D/repo" && git apply "$P" ) || { echo "patch does not apply"; exit 3; }
ROOT=$(cd "$(dirname "$0")" && pwd)
cd "$ROOT" && SIM_REPO="$D/repo" SIM_EVIDENCE_DIR="$D/evidence" SIM_BUDGET_S=$B ./simcheck check $PROP --tier $T 2>&1 | cut -c1-500 | tail -6
rc=${PIPESTATUS[0]}
echo "check-exit=$rc"
