# sourced by every command of the verification machinery
export GOFLAGS=-mod=mod GOPROXY=off GOSUMDB=off GOTOOLCHAIN=local
export PATH=/opt/veriftools/go1.26.8/bin:$PATH
export GOCACHE=${GOCACHE:-/root/.cache/go-build}
