#!/bin/bash
# usage: save_seed.sh <ID> <name>   -- copies patch, demos, notes into /verif/seeded/<name>/
ID=$1; NAME=$2; D=/verif/seeded/$NAME
mkdir -p $D
cp /tmp/wt/$ID-out/patch.diff $D/patch.diff
cp /tmp/wt/$ID-out/notes.md $D/notes.md 2>/dev/null
( cd /tmp/wt/$ID-out/demo && find . -type f | while read f; do n=$(echo "$f" | sed 's|^\./||; s|/|__|g'); cp "$f" "$D/demo__$n.txt"; done )
ls $D
