import sys
ID, files, specifics, extra = sys.argv[1:5]
print(f"""You are helping evaluate a verification effort by writing a realistic, subtle BUG into a Go project. Work ONLY inside the git worktree /tmp/wt/{ID} (a checkout of datastax/cql-proxy, a CQL sidecar proxy) and write your outputs to /tmp/wt/{ID}-out/. Do NOT read or touch /repo or /verif, and do not look anywhere outside /tmp/wt/{ID}, /tmp/wt/{ID}-out and the Go module cache.

The property you must break is in /tmp/wt/{ID}-prop.txt (read it first). Read the code it concerns ({files}) to understand the mechanisms that make it hold.

IMPORTANT about running tests: other people run the same test suite on this machine at the same time and the tests bind fixed loopback ports, so ALWAYS run go test inside a private network namespace, exactly like this:
  unshare -n sh -c 'ip link set lo up; cd /tmp/wt/{ID} && GOPROXY=off go test -mod=mod -vet=off -count=1 ./...'
(takes ~30 s; the network is unavailable anyway; everything needed is cached). NEVER use `git stash` (the stash is shared between all worktrees of this repository and other people use it concurrently): to test without your change, save `git diff > /tmp/wt/{ID}-out/patch.diff` and use `git apply -R` / `git apply`. {extra}

Your job: produce ONE change to the production (non-test) code of the project that
 1. breaks that property,
 2. still compiles, and the existing test suite (command above) still passes,
 3. needs something SPECIFIC to manifest: {specifics}. It must NOT be a change that the simplest configuration / a single plain request would expose at once. Think of the kind of regression a plausible refactoring or "optimisation" could introduce and a code reviewer might miss.

Also produce a DEMONSTRATION: a Go test file placed in the worktree (named zz_demo_test.go in the relevant package, using the package's own test helpers where useful) that FAILS with your change applied and PASSES without it. Verify both directions yourself (in the network namespace).

Deliverables in /tmp/wt/{ID}-out/:
 - patch.diff : `git diff` of the production-code change only (no test files),
 - demo/      : the demonstration file(s), with their intended path inside the repo noted at the top as a comment,
 - notes.md   : what the change is, why it breaks the property, exactly what is needed for it to manifest, the commands you ran and their results (existing suite with the change: pass; demo without change: pass; demo with change: fail).
Leave the worktree with your change applied and the demo file present. Be concrete and verify everything by running it; if your first idea does not pass the existing tests or cannot be demonstrated, pick another. Report back a short summary.""")
