#!/bin/bash
# usage: regress_seeds.sh [budget_s]  -- every seeded change against the check(s) that caught it
# (meta.json "caught_by", default: its own property); prints one line per change.
B=${1:-45}
ROOT=$(cd "$(dirname "$0")/.." && pwd)
cd "$ROOT"
for d in seeded/*/; do
  id=$(basename $d)
  props=$(python3 -c "
import json,sys
m=json.load(open('$d/meta.json'))
print('' if m.get('obsolete_since') else ' '.join(x for x in (m.get('caught_by') or [m['property']]) if len(x) == 3 and x[0] == 'C'))")
  if [ -z "$props" ]; then echo "$id  obsolete (see meta.json): skipped"; continue; fi
  res=""
  for p in $props; do
    out=$(./evalseed.sh $d/patch.diff $p $B 2>&1)
    rc=$(echo "$out" | grep -o 'check-exit=[0-9]*' | tail -1)
    n=$(echo "$out" | grep -c '^VIOLATION')
    res="$res $p:$rc:viol=$n"
  done
  echo "$id $res"
done
