#!/bin/bash
# usage: process_seed.sh <ID> [race]  -- verify the agent's change in its worktree (background) and evaluate it with the quick check
ID=$1
(/verif/tools/verify_seed.sh $ID $2 > /tmp/wt/$ID-verify.log 2>&1 &)
cd /verif && ./evalseed.sh /tmp/wt/$ID-out/patch.diff $ID 2>&1 | tail -6 | cut -c1-700
while pgrep -f "verify_seed.sh $ID" >/dev/null; do sleep 3; done
grep -- "^== \|^--- \|^FAIL\|^ok\|^ M\|^??\|DATA RACE" /tmp/wt/$ID-verify.log | tr '\n' '|'; echo
