#!/usr/bin/env python3
# regenerates the table of DESIGN.md section 17 from seeded/*/meta.json
import json, glob, re
rows = []
for d in sorted(glob.glob('/verif/seeded/*/meta.json')):
    m = json.load(open(d))
    r = m['result']
    first = 'missed at first' if r.startswith('missed') else ('not observable' if r.startswith('not observable') else 'caught as written')
    if m.get('obsolete_since'):
        r += ' [obsolete since /repo %s: %s]' % (m['obsolete_since'], m.get('obsolete_note', ''))
    rows.append("| `%s` | %s | %s | %s — %s |" % (m['id'], m['property'], m['needs'].replace('|', '/'), first, r.replace('|', '/')))
p = '/verif/DESIGN.md'
s = open(p).read()
head = "| id | property | what it needs to manifest | caught by (quick / thorough) |\n|---|---|---|---|\n"
a = s.index(head) + len(head)
b = s.index("\n\n", a)
s = s[:a] + "\n".join(rows) + s[b:]
open(p, 'w').write(s)
print(len(rows), "rows")
