#!/bin/bash
# usage: verify_seed.sh <ID> [race]  -- suite passes with change (demos aside), demos fail with change, pass without
ID=$1; RACE=${2:+-race}
WT=/tmp/wt/$ID
cd $WT || exit 3
export PATH=/usr/local/go/bin:$PATH
DEMOS=$(git status --short | grep '^??' | awk '{print $2}' | grep '_test.go$')
PKGS=$(for d in $DEMOS; do echo ./$(dirname $d)/; done | sort -u | tr '\n' ' ')
mkdir -p /tmp/wt/$ID-keep; for d in $DEMOS; do mkdir -p /tmp/wt/$ID-keep/$(dirname $d); mv $d /tmp/wt/$ID-keep/$d; done
echo "== suite with change"
unshare -n sh -c "ip link set lo up; cd $WT && GOPROXY=off go test -mod=mod -vet=off -count=1 ./... 2>&1 | tail -8"
for d in $DEMOS; do cp /tmp/wt/$ID-keep/$d $d; done
echo "== demo with change (expect FAIL) pkgs=$PKGS"
unshare -n sh -c "ip link set lo up; cd $WT && GOPROXY=off go test $RACE -mod=mod -vet=off -count=1 -run 'Demo|demo|Seed|ZZ' $PKGS 2>&1 | grep -a -- '^--- \|^FAIL\|^ok\|DATA RACE\|^panic' | head -20"
git diff > /tmp/wt/$ID-cur.patch; git apply -R /tmp/wt/$ID-cur.patch
echo "== demo without change (expect ok)"
unshare -n sh -c "ip link set lo up; cd $WT && GOPROXY=off go test $RACE -mod=mod -vet=off -count=1 -run 'Demo|demo|Seed|ZZ' $PKGS 2>&1 | grep -a -- '^--- \|^FAIL\|^ok\|DATA RACE\|^panic' | head"
git apply /tmp/wt/$ID-cur.patch
echo "== final state"; git status --short
