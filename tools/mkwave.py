#!/usr/bin/env python3
"""Regenerates /tmp/wt/<ID>-task.md for the next wave of seeded changes: the lists of mechanisms
already used (own property: full 'change' text; other properties: one line each) are rebuilt from
/verif/seeded/*/meta.json; everything else is kept from the previous wave's task file.
usage: mkwave.py <ideas-file>"""
import json, glob, re, sys, os
ideas = open(sys.argv[1]).read().strip()
metas = [json.load(open(f)) for f in sorted(glob.glob('/verif/seeded/*/meta.json'))]
props = sorted({m['property'] for m in metas})
for ID in props:
    p = '/tmp/wt/%s-task.md' % ID
    s = open(p).read()
    own = ''.join('- %s\n' % m['change'] for m in metas if m['property'] == ID)
    oth = ''.join('- (%s) %s\n' % (m['property'], m['change'][:110]) for m in metas if m['property'] != ID)
    s = re.sub(r'(used before for this property:\n)(?:- .*\n)+', lambda mo: mo.group(1) + own, s)
    s = re.sub(r'(\(one line each\):\n)(?:- .*\n)+', lambda mo: mo.group(1) + oth, s)
    s = re.sub(r'Look for what is left\..*\n', lambda mo: 'Look for what is left. ' + ideas + '\n', s)
    open(p, 'w').write(s)
    print(ID, len(own.splitlines()), len(oth.splitlines()))
