#!/usr/bin/env python3
"""Regenerates MANIFEST.json from the table below (keeps it valid at all times)."""
import json, os

LEVEL_NOTE = ("Trusted base: the sim-aware models of sync/atomic/rand generated into the overlay, the synctest fake clock, the fake "
              "Cassandra nodes/clients built on the reference codec of go-cassandra-native-protocol, and the oracle code in sim/props. "
              "Seeded sampling: a clean batch is evidence, not proof; bounds are stated in DESIGN.md §7.")

CHECKS = {
 "C01": ("deterministic simulation: seeded schedule/fault search over the real proxy under a token scheduler; history oracle (one reply per request), deadlock/livelock/panic detectors",
         "Seeded exploration of goroutine-level schedules, per-attempt backend outcomes and simultaneous connection losses around the real proxy code; every run checks that each request of each connected client gets exactly one reply and reports deadlocks, livelocks and panics; failures are minimised replay files.", "§7 C01"),
 "C02": ("deterministic simulation: seeded schedule search with scheduler-chosen backend reply order, stream reuse and stream exhaustion; token oracle per (client, stream)",
         "Every forwarded request carries a unique token that the fake backends echo; clients reuse equal, lowest-free stream ids, backends answer in scheduler-chosen order, and one run shape keeps >2048 requests outstanding on one backend connection; every reply that carries a token must carry the token of the request sent on that stream, and no backend stream id is reused while outstanding.", "§7 C02"),
 "C04": ("deterministic simulation: per-attempt outcome scripts and connection-loss faults; oracle over the backend execution log against generator ground truth",
         "Requests with by-construction idempotency ground truth (CQL templates with case/whitespace variants, prepared ids known/unknown to the proxy, batches, graph payloads) meet scripted per-attempt outcomes and connection losses; the backend log must show no further attempt after an outcome that may have applied a non-idempotent request, and the client must see that error or a connection-lost error.", "§7 C04"),
 "C05": ("deterministic simulation: scripted outcome sequences over 1-4 hosts; attempt trace and final frame checked against an executable, set-valued reference model of the documented retry policy",
         "Sequential requests in a settled world; each request's ordered (host, outcome) trace and final client frame must be accepted by a reference model written from the policy documentation (same-host once, next-host once/always/if idempotent, rotation order, each host once, hosts+1 bound, 'no more hosts' exactly on exhaustion), with the full field space of timeout/unavailable messages swept through the wire.", "§7 C05"),
 "C15": ("deterministic simulation at component level: load balancer driven by sim tasks with a yield at every lock/atomic operation; exhaustive small-scope sweep + seeded long and concurrent histories against a set-based model",
         "The real round-robin load balancer is driven through OnEvent/NewQueryPlan/Next: an exhaustive sweep of well-formed event histories over up to 4-5 hosts, seeded long histories, and concurrent planner tasks racing an event task under the token scheduler; every plan must yield some membership of its creation window exactly once, never a duplicate, with rotating starts and balanced first choices.", "§7 C15"),
 "C08": ("deterministic simulation: PREPARE/EXECUTE/BATCH histories over several clients with node restarts, late-joining nodes (simulated refresh window), scripted re-prepare outcomes and a harness-owned prepared cache; wire oracle at the clients and the backends",
         "Clients prepare statements and execute them until every host has been reached, across node restarts, nodes that join after start-up (topology event, refresh window on the fake clock), compressed sessions and scripted re-prepare failures; a client must never see UNPREPARED for an id the (harness-owned) cache holds, every EXECUTE/BATCH gets exactly one reply, and every frame the proxy sends while re-preparing must be decodable on its target connection.", "§7 C08"),
 "C07": ("deterministic simulation: interleaved USE/data histories of several clients with different versions and compressions, concurrent session creation under the token scheduler; backend-side oracle on the carrying connection",
         "Several clients with different protocol versions and compressions interleave USE (valid, quoted, mixed-case, missing, refused by one host) with tokenised requests, including several clients switching to the same keyspace in one scheduling window; for every request the fake backend's view of the carrying connection (keyspace of its last USE, STARTUP version, compression) must equal the per-client model, and USE replies must name the keyspace as the backend does or carry the backend's error.", "§7 C07"),
 "C14": ("deterministic simulation: connect/register/disconnect histories against schema, topology and status events with control-connection kills; per-client delivery-count oracle with an explicit ambiguity window",
         "Clients register for subsets of event types, disconnect and reconnect while fake backends emit schema (all targets), topology and status events on the current control connection and the control connection is killed and fails over; each event the proxy fully read must reach every client whose schema REGISTER was answered before emission and that is still connected exactly once with equal content, never twice, never an unregistered client, and no topology/status event may reach any client.", "§7 C14"),
 "C16": ("deterministic simulation in simulated hours: node add/remove/restart, pool and control connection loss, stalled nodes on the fake clock; bounded-liveness oracles after the last fault, dial-gap and outage-clock oracles; native sweep of the back-off calculator",
         "Fault sequences (node additions, removals, restarts, event bursts, host outages, pooled/control connection kills single and simultaneous, nodes that stop answering heartbeats) run over minutes to hours of simulated time; after the last fault, within the sum of the configured timeouts, probe requests must be served by exactly the backend's current cluster, removed nodes are no longer dialled, lost connections are replaced with dial gaps inside the back-off bounds that restart near the base after success, unresponsive connections are closed within idle+heartbeat+connect timeout, the control connection fails over, and OutageDuration is zero exactly while a control connection exists. The back-off calculator is swept natively over base/max configurations and 80 attempts.", "§7 C16"),
 "C13": ("deterministic simulation: generated connection histories over all version bytes, directions, opcodes, maxima and STARTUP option maps with a canary connection; one-frame-per-request and nothing-forwarded oracles",
         "Hostile connections send generated sequences of OPTIONS/STARTUP/REGISTER/requests with every version byte (0-127, both directions), valid and invalid opcodes and STARTUP option maps under every configured maximum version, each answered frame by frame: exactly one SUPPORTED/READY/ERROR, a protocol error naming the version for known versions outside [v3, max] with the connection still usable, error or close for unknown bytes, ERROR only for unsupported compression; a well-behaved second connection keeps decoding correct, uncompressed answers and the backends see nothing but its requests.", "§7 C13"),
 "C03": ("deterministic simulation: protocol-grammar request/response generators (all option flags, versions v3/v4/v5/DSEv1/DSEv2, none/lz4/snappy, bodies up to 1 MiB) under scheduler-chosen fragmentation, concurrent clients and retries; byte-equality oracle modulo the stream id on every attempt",
         "Requests produced by the reference codec over the protocol's option space and responses of every kind and error code (with tracing, warning and custom-payload flags, compressed or not) flow through the real proxy under fragmentation, several clients and scripted retries; the bytes every backend attempt receives and the bytes the client receives must equal what was sent except for header bytes 2-3, and no well-formed frame may cost the client its connection.", "§7 C03"),
 "C12": ("deterministic simulation: all subsets of consistency levels as the unsupported list x override level x generated QUERY/EXECUTE/BATCH over versions and compressions, with scripted retries; field-by-field oracle through the reference codec at the backend",
         "Each run draws an unsupported-consistency list (any of the 2^11 subsets, sometimes none) and an override level, prepares SELECT and non-SELECT statements through the proxy and sends generated requests (all option flags, header flags, versions, compression), some of them retried; every attempt a backend receives is decoded with the reference codec and must equal the client's request with only the consistency replaced when (non-SELECT and level in list), and be byte-identical otherwise.", "§7 C12"),
 "C09": ("deterministic simulation: per-connection USE histories x qualifier x table spelling x statement kind as QUERY and PREPARE+EXECUTE; did-it-reach-a-backend oracle against an independent CQL name-resolution model",
         "Connections with a history of USE statements (none, system in several spellings, user and quoted keyspaces) send tokenised statements sweeping keyspace qualifiers, table spellings (system tables, case/quote variants, look-alikes), selector lists and statement kinds, as QUERY and as PREPARE (+EXECUTE, with the v5 keyspace field); an independent resolution model (CQL identifier equality, qualifier before current keyspace) decides whether the proxy must answer itself, which must coincide with the token never/always reaching a fake backend; backends never see a client-originated read of system.local/peers and no client ever sees a backend's sentinel rows.", "§7 C09"),
 "C10": ("deterministic simulation with several real proxy instances in one world sharing a generated peer list; decoded-rows oracle against a model computed from the configuration, and cross-proxy agreement",
         "Up to four real proxies are booted in one simulated world from one generated peer list (0-16 IPv4/IPv6 entries, with/without self, data centers and tokens, DSE or OSS backend); system.local and system.peers are read through the wire with * and generated selector lists (subsets, order, aliases, count(*), count(col), now()), decoded with the reference data codecs under the advertised types and compared with the configured/backend-derived facts; what each proxy says about itself must equal what every other proxy says about it, host ids are version-3 UUIDs, tokens are distinct and follow address order from the minimum token.", "§7 C10"),
 "C17": ("deterministic simulation with corruption faults: seeded mutation of client byte streams and malformed/unsolicited backend replies around a canary client, under every maximum version; per-goroutine panic capture, deadlock/livelock detectors, canary-correctness oracle",
         "Hostile clients send seeded mutations of valid frames (bit flips, truncation, declared lengths up to 16 MiB, wrong opcode/direction/version bytes, hostile strings in query text, PREPARE keyspace, STARTUP options and batch children) and hostile backend nodes answer with wrong streams, wrong opcodes, short or unknown bodies, duplicate replies, garbage, UNPREPARED for cached ids (also to heartbeats) and garbage events; no SUT goroutine may panic (captured per task, as it would kill the real process), nothing may deadlock or spin, and a well-behaved canary connection keeps getting exactly one correct answer per request from the healthy host.", "§7 C17"),
 "C18": ("deterministic simulation in a -race build: the scenario families of C01/C02/C07/C08/C14/C16 (plus C10, C15, C19) under the token scheduler with the scheduler's own hand-offs hidden from the detector; Go race detector reports keyed by the pair of cql-proxy access sites",
         "The same seeded scenario families run in a -race build of the instrumented proxy in which every simulator hand-off is wrapped in RaceDisable/RaceEnable and simulator code is norace, while each sim lock takes the real lock it replaces: the detector therefore sees exactly the program's own happens-before edges and reports every pair of conflicting accesses they leave unordered, on code paths (simultaneous connection loss, concurrent session creation, event fan-out, retries) that the scheduler reaches deliberately. Reports whose innermost non-library frame is harness code are ignored.", "§7 C18, §3.7"),
 "C19": ("deterministic simulation with Byzantine TLS peers and a controlled clock: real astra bundle loading/resolver/TLS configuration against fake metadata service and SNI proxy presenting each certificate-chain kind, certificates minted relative to the simulated clock (including expiry during the run)",
         "A secure-connect bundle is built in memory and loaded with the real loader; the real resolver and proxy connect over simulated TCP to a fake metadata service and a fake SNI proxy (crypto/tls servers run as sim tasks) that present each of: valid leaf, other CA, self-signed, wrong DNS name, expired, not yet valid, intermediate present/missing, no certificate, and a leaf that expires while the run's clock advances; the handshake must be accepted exactly when the chain verifies against the bundle CA for the bundle host at the simulated time, rejected servers receive zero application bytes, accepted ones see the bundle's client certificate and the node's host id (or the bundle host) as SNI.", "§7 C19"),
 "C20": ("deterministic simulation of the real entry point: proxy.Run booted in the simulated world under enumerated flags / environment variables / YAML files against a backend that supports every version of its family; exit code, first STARTUP version, client gate and override level observed on the wire",
         "The real proxy.Run is started as a sim task with systematically enumerated configurations (every spelling of protocol-version and max-protocol-version in several letter cases, all 25 version/max pairs, all 11x11 consistency name pairs, numeric/duration boundaries, unknown names, missing backend, peers/tokens inconsistencies) delivered by flag, environment variable or YAML file; invalid ones must make Run return non-zero without serving, valid ones must serve with the named version in the first STARTUP a fully capable backend sees, gate clients exactly at the named maximum, apply the named override level, and return 0 on shutdown.", "§7 C20"),
}

NOT_APPLICABLE = {
 "C06": "pure function of a string (parser.IsQueryIdempotent): no schedule, clock, fault or peer for a simulator to sample; its wire-visible consequence (a non-idempotent statement being retried) is exercised by the C04 workload",
 "C11": "pure decode/encode functions of bytes and a version: no schedule, clock, fault or peer; the wire-visible part is exercised by C03/C12/C17",
}

PENDING = {}

def main():
    here = os.path.dirname(os.path.abspath(__file__))
    all_ids = ["C%02d" % i for i in range(1, 21)]
    checks = []
    for pid in all_ids:
        if pid in CHECKS:
            tech, text, ref = CHECKS[pid]
            checks.append({
                "property_id": pid,
                "quick_cmd": "./simcheck check %s --tier quick" % pid,
                "thorough_cmd": "./simcheck check %s --tier thorough" % pid,
                "evidence_file": "/verif/evidence/%s.json" % pid,
                "replay_cmd_template": "./simcheck replay {path}",
                "engine": "cqlsim",
                "level_claimed": {"category": "exploration", "text": text, "design_ref": ref},
                "level_note": LEVEL_NOTE,
                "technique": tech,
            })
    na = [{"property_id": k, "reason": v} for k, v in sorted(NOT_APPLICABLE.items())]
    for pid in all_ids:
        if pid not in CHECKS and pid not in NOT_APPLICABLE:
            na.append({"property_id": pid, "reason": PENDING.get(pid, "not claimed yet: the scenario for this property is not built (see DESIGN.md §7 for the design)")})
    m = {
        "version": 1,
        "setup_cmd": "./simcheck build",
        "hooks": {
            "guard": "verif",
            "enable": "no hooks are committed to /repo: at check time sim/cmd/instrument rewrites the proxy, proxycore and astra packages of the current working tree into an overlay (go test -overlay) in which every synchronisation operation is a scheduling point of the simulator",
            "baseline_off_cmd": "cd /repo && go test -mod=mod -vet=off -count=1 -timeout 25m ./...",
            "source_commits": [],
            "add_only": True,
        },
        "engines": [{"name": "cqlsim", "path": "/verif/sim", "serves_properties": sorted(CHECKS), "kind_free_text": "deterministic simulator: token scheduler in a testing/synctest bubble, simulated network/clock/peers, seeded choice stream with shrinking and exact replay"}],
        "checks": checks,
        "notes": "Deterministic simulation with fault injection; see DESIGN.md. Genuine defects found and repaired are listed in known_findings.json.",
        "not_applicable": na,
    }
    json.dump(m, open(os.path.join(here, "MANIFEST.json"), "w"), indent=1)

if __name__ == "__main__":
    main()
