package world

import (
	"crypto/md5"
	"encoding/hex"
	"fmt"
	"net"
	"reflect"
	"strings"
	"time"

	"cqlsim/simnet"

	"github.com/datastax/go-cassandra-native-protocol/datatype"
	"github.com/datastax/go-cassandra-native-protocol/frame"
	"github.com/datastax/go-cassandra-native-protocol/message"
	"github.com/datastax/go-cassandra-native-protocol/primitive"
)

// ---------------------------------------------------------------- outcomes

type OutcomeKind int

const (
	OutOK OutcomeKind = iota
	OutError
	OutSilentDrop // no reply; the connection is reset later (a held peer action)
	OutDropNow    // the connection is reset when the request arrives
	OutHostile    // a malformed / unexpected reply (C17); Hostile selects the behaviour
	OutRawError   // an ERROR response the proxy's codec library cannot decode (an error code or a write type newer than the library): RawCode, RawTail
	OutHang       // no reply, and the connection answers nothing from now on (not even heartbeats): the proxy has to give it up itself (idle timeout)
)

// Outcome is what a fake backend does with one attempt of a tokenised request.
type Outcome struct {
	Kind    OutcomeKind
	Err     message.Error // for OutError
	Name    string        // short label used in traces and oracles
	Hostile int
	RawCode int32  // for OutRawError: the error code ...
	RawTail []byte // ... and what follows the message string in the body
}

func (o Outcome) String() string { return o.Name }

var OK = Outcome{Kind: OutOK, Name: "ok"}

func ErrOutcome(name string, e message.Error) Outcome {
	return Outcome{Kind: OutError, Err: e, Name: name}
}

// Attempt is one arrival of a tokenised request at a backend.
type Attempt struct {
	Token       string
	Node        *Node
	Conn        *BackendConn
	Stream      int16
	Seq         uint64
	At          time.Duration
	Outcome     string
	Raw         []byte // header+body exactly as received
	OpCode      primitive.OpCode
	Keyspace    string
	Version     primitive.ProtocolVersion
	Compression string
	Msg         message.Message
	Replied     bool
	ReplyRaw    []byte
	Dropped     bool // the connection died before/without a reply (or before the proxy read it)
	ReplyLost   bool // the reply was written but never read by the proxy
	ReplyEnd    int64
	lostChecked bool
	UserMod     interface{}
}

// ---------------------------------------------------------------- nodes

type Node struct {
	w                     *World
	Name                  string
	IP                    net.IP
	Addr                  string // ip:9042
	DC                    string
	HostID                primitive.UUID
	Up                    bool // accepts connections
	Blackhole             bool // dials hang, traffic is swallowed
	Stalled               bool // receives requests but never answers (not even heartbeats)
	FailPeersQueries      int  // the next so many system.peers queries are answered with an error (system.local works): a refresh that fails half-way
	FailControlQueries    bool // answers system.local / system.peers with an error (a contact point that cannot serve)
	InCluster             bool // listed in system tables of the other nodes
	MaxVersion            primitive.ProtocolVersion
	DSE                   bool
	Prepared              map[string]string // hex id -> query
	Conns                 []*BackendConn
	Keyspaces             map[string]bool // keyspaces that exist (lower-cased, unquoted form)
	BusyKeyspaces         map[string]bool // keyspaces for which a USE is answered OVERLOADED
	SilentControlQueries  int             // that many system.local / system.peers queries get no answer at all
	DropNewConnsAtStartup int             // that many new connections are reset when their STARTUP arrives
	StallSndBuf           int             // > 0 while the node is stalled hard (StallHard): it does not read from its sockets either
	OddLocalRows          int             // that many system.local answers carry a null in a column the proxy needs (which: OddLocalKind)
	OddLocalKind          int
	Restarts              int
	// RespCompress: 0 follow the request's connection setting for every frame, 1 never, 2 per-frame choice
	RespCompress  int
	AuthUser      string // if set, PasswordAuthenticator with this user/password
	AnnounceIP    net.IP // if set: what the node says about itself in system.local (its peers list it under IP): a node with a misconfigured broadcast address, usable for requests, useless for the control connection
	RefuseNew     bool   // the node accepts no new connections (a node that left the ring has stopped its native transport; connections it still has linger)
	AuthDSE       bool   // ... as a DSE node does it: mechanism name first, then a challenge round
	AuthPass      string
	ConnsSeen     int
	DialTimes     []time.Duration
	Joined        bool // added to the cluster after the proxy started
	EvilHeartbeat int  // number of heartbeats to answer maliciously
	NeverHostile  bool // this node answers correctly whatever the script says (C17's healthy node)
}

type BackendConn struct {
	Node          *Node
	Link          *simnet.Link
	ID            int
	inbuf         []byte
	Version       primitive.ProtocolVersion
	Compression   string
	Keyspace      string
	Started       bool
	Registered    bool
	Closed        bool
	Control       bool            // saw a REGISTER or system-table query: it is (or was) a control connection
	AnsweredPeers bool            // answered a system.peers query (the last step of establishing a control connection)
	HeartbeatsAt  []time.Duration // when OPTIONS arrived on the established connection
	Outstanding   map[int16]bool
	Frames        int
	authPending   bool
	authStarted   bool // DSE: the mechanism was named and the challenge sent
	stalled       [][]byte
	Hung          bool         // answers nothing any more (OutHang)
	Out           func([]byte) // if set, replies are written here instead of to Link
}

// Supports reports whether the node speaks protocol version v.
func (n *Node) Supports(v primitive.ProtocolVersion) bool { return n.supports(v) }

func (n *Node) supports(v primitive.ProtocolVersion) bool {
	if n.DSE {
		switch v {
		case primitive.ProtocolVersion3, primitive.ProtocolVersion4:
			return true
		case primitive.ProtocolVersionDse1, primitive.ProtocolVersionDse2:
			return v <= n.MaxVersion
		}
		return false
	}
	switch v {
	case primitive.ProtocolVersion3, primitive.ProtocolVersion4, primitive.ProtocolVersion5:
		return v <= n.MaxVersion
	}
	return false
}

func (n *Node) String() string { return n.Name }

// OnConnect is called from the dial hook (on the dialling SUT task).
// StallHard: the node answers nothing and, unlike a plain stall, also stops reading from its
// sockets: the proxy can write sndbuf more bytes per connection, then its writes block.
func (n *Node) StallHard(sndbuf int) {
	n.Stalled = true
	n.StallSndBuf = sndbuf
	for _, c := range n.LiveConns() {
		if c.Link != nil {
			c.Link.SetNoRead(true, sndbuf)
		}
	}
	n.w.Logf("node %s: stops reading (send buffer %d)", n, sndbuf)
}

func (n *Node) readAgain() {
	if n.StallSndBuf == 0 {
		return
	}
	n.StallSndBuf = 0
	for _, c := range n.Conns {
		if c.Link != nil && c.Link.NoRead {
			c.Link.SetNoRead(false, 0)
		}
	}
}

func (n *Node) newConn(l *simnet.Link) *BackendConn {
	n.ConnsSeen++
	if n.Stalled && n.StallSndBuf > 0 && l != nil {
		l.SetNoRead(true, n.StallSndBuf)
	}
	c := &BackendConn{Node: n, Link: l, ID: n.w.nextConnID(), Outstanding: map[int16]bool{}}
	n.Conns = append(n.Conns, c)
	n.DialTimes = append(n.DialTimes, n.w.Now())
	return c
}

func (c *BackendConn) String() string { return fmt.Sprintf("%s/c%d", c.Node.Name, c.ID) }

func (c *BackendConn) OnClose(l *simnet.Link) {
	c.Closed = true
	c.Node.w.Logf("backend %s: connection closed by proxy", c)
	c.Node.w.connGone(c)
}

func (c *BackendConn) OnData(l *simnet.Link, b []byte) {
	w := c.Node.w
	if c.Node.Blackhole {
		return
	}
	c.inbuf = append(c.inbuf, b...)
	for _, raw := range splitFrames(&c.inbuf) {
		c.Frames++
		c.handle(raw)
		if c.Closed || l.IsReset() {
			return
		}
	}
	_ = w
}

func (c *BackendConn) reply(stream int16, msg message.Message, att *Attempt, desc string) {
	w := c.Node.w
	frm := frame.NewFrame(c.Version, stream, msg)
	if w.ReplyMod != nil && att != nil {
		w.ReplyMod(att, frm)
	} else if att != nil && len(att.Raw) > 1 && att.Raw[1]&0x02 != 0 {
		// as a Cassandra node does: a request that asked for tracing gets the tracing id in front
		// of the response body (header flag 0x02)
		id := primitive.UUID{0x7e, 0x57, 0, 0, 0, 0, 0x40, 0, 0x80, 0, 0, 0, 0, 0, byte(stream >> 8), byte(stream)}
		frm.SetTracingId(&id)
		w.Stat("backend.traced_response")
	}
	if c.Compression != "" && msg.GetOpCode() != primitive.OpCodeReady && msg.GetOpCode() != primitive.OpCodeSupported {
		switch c.Node.RespCompress {
		case 0:
			frm.SetCompress(true)
		case 2:
			frm.SetCompress(w.C.Choose("respcompress", 2) == 0)
		}
	}
	c.replyBytes(stream, encodeFrame(c.Compression, frm), att, desc)
}

// replyBytes sends (or holds for later release) an encoded response frame.
func (c *BackendConn) replyBytes(stream int16, raw []byte, att *Attempt, desc string) {
	w := c.Node.w
	if c.Out != nil {
		if att != nil {
			att.Replied, att.ReplyRaw = true, raw
			delete(c.Outstanding, att.Stream)
		}
		c.Out(raw)
		return
	}
	w.hold(&heldReply{conn: c, raw: raw, att: att, desc: desc, stream: stream})
}

func (c *BackendConn) replyNow(stream int16, msg message.Message) {
	frm := frame.NewFrame(c.Version, stream, msg)
	if c.Out != nil {
		c.Out(encodeFrame(c.Compression, frm))
		return
	}
	c.Link.PeerWrite(encodeFrame(c.Compression, frm))
}

// NewStreamConn creates a backend connection state machine that is fed decrypted bytes by a
// harness task (a node behind a TLS-terminating SNI proxy); replies go to out.
func (n *Node) NewStreamConn(out func([]byte)) *BackendConn {
	n.ConnsSeen++
	c := &BackendConn{Node: n, ID: n.w.nextConnID(), Outstanding: map[int16]bool{}, Out: out}
	n.Conns = append(n.Conns, c)
	return c
}

// Feed hands plaintext bytes to the state machine.
func (c *BackendConn) Feed(b []byte) {
	c.inbuf = append(c.inbuf, b...)
	for _, raw := range splitFrames(&c.inbuf) {
		c.Frames++
		c.handle(raw)
	}
}

// Reset kills the connection from the backend side.
func (c *BackendConn) Reset(why string) {
	if c.Closed {
		return
	}
	c.Closed = true
	c.Link.PeerReset()
	c.Node.w.Logf("backend %s: RESET (%s)", c, why)
	c.Node.w.connGone(c)
}

func (c *BackendConn) handle(raw []byte) {
	w := c.Node.w
	n := c.Node
	if c.Hung {
		w.Stat("backend.frame_ignored_by_hung_connection")
		return
	}
	if n.Stalled {
		// a stalled node reads nothing: the frame waits until the stall ends (or the connection dies)
		c.stalled = append(c.stalled, raw)
		w.Stat("backend.stalled_frame")
		return
	}
	frm, err := decodeFrame(c.Compression, raw)
	if err != nil {
		// A frame from the proxy that the reference codec cannot decode is always a finding
		// for the property that owns the frame (C03/C12); record and drop the connection.
		w.Logf("backend %s: undecodable frame from proxy: %v (%x...)", c, err, raw[:min(len(raw), 24)])
		w.BadFrames = append(w.BadFrames, BadFrame{Conn: c, Raw: raw, Err: err.Error()})
		if len(raw) >= hdrLen && int(raw[0]&0x7f) == int(c.Version) && raw[0]&0x80 == 0 && len(raw) < 1<<20 {
			// as a Cassandra node does for a request whose body does not parse: a protocol error on
			// that stream, the connection stays open
			stream := int16(raw[2])<<8 | int16(raw[3])
			c.replyNow(stream, &message.ProtocolError{ErrorMessage: "cannot parse request body"})
			return
		}
		c.Reset("undecodable frame")
		return
	}
	hdr := frm.Header
	stream := hdr.StreamId
	if hdr.IsResponse {
		// nothing a proxy sends to a node is a response: bytes meant for some client ended up here
		w.Violate("backend-protocol", "response-frame-sent-to-a-backend", fmt.Sprintf("%s received a response frame from the proxy: %s stream %d (%s)", c, hdr.OpCode, stream, briefMsg(frm.Body.Message)))
		c.Reset("response frame from the proxy")
		return
	}
	if !c.Started {
		switch frm.Body.Message.(type) {
		case *message.Options, *message.Startup, *message.AuthResponse:
		default:
			// as a Cassandra node does: nothing but OPTIONS / STARTUP on a fresh connection. A request
			// that arrives here was written to a connection it was never sent on.
			w.Violate("backend-protocol", "request-on-a-backend-connection-before-startup", fmt.Sprintf("%s received %s (stream %d, token %q) before any STARTUP on that connection", c, hdr.OpCode, stream, tokenOf(frm.Body.Message)))
			c.Reset("request before STARTUP")
			return
		}
	}
	if c.Started && hdr.Version != c.Version {
		// as Cassandra does: every frame on a connection must use the version of its STARTUP
		w.Stat("backend.version_mismatch")
		w.UnexpectedAtBackend = append(w.UnexpectedAtBackend, fmt.Sprintf("%s: %s frame with protocol version %d on a connection negotiated for version %d", c, hdr.OpCode, hdr.Version, c.Version))
		c.replyNow(stream, &message.ProtocolError{ErrorMessage: fmt.Sprintf("Invalid message version. Got %d but previous messages on this connection had version %d", hdr.Version, c.Version)})
		return
	}
	if _, isAuth := frm.Body.Message.(*message.AuthResponse); c.authPending && !isAuth {
		// as a Cassandra node does: nothing but the authentication exchange until it has succeeded
		w.Stat("backend.request_before_authentication")
		w.UnexpectedAtBackend = append(w.UnexpectedAtBackend, fmt.Sprintf("%s: %s before the authentication completed", c, hdr.OpCode))
		c.replyNow(stream, &message.ProtocolError{ErrorMessage: "Unexpected message " + hdr.OpCode.String() + ", expecting AUTH_RESPONSE"})
		return
	}
	switch msg := frm.Body.Message.(type) {
	case *message.Options:
		w.Stat("backend.options")
		if c.Started {
			w.Stat("backend.options_on_started_conn")
			c.HeartbeatsAt = append(c.HeartbeatsAt, w.Now())
		}
		c.Version = pickVersion(c.Version, hdr.Version)
		if n.EvilHeartbeat > 0 && c.Started {
			// a hostile node answers a heartbeat with something else
			n.EvilHeartbeat--
			w.Stat("fault.hostile-backend.heartbeat")
			id := w.HostileUnpreparedID
			if id == nil {
				id = []byte("0123456789abcdef")
			}
			switch n.EvilHeartbeat % 3 {
			case 0:
				c.replyNow(stream, &message.Unprepared{ErrorMessage: "unprepared", Id: id})
			case 1:
				c.replyNow(stream, tokenRows("tok0x", c.Version))
			case 2:
				c.replyNow(stream, &message.Supported{Options: map[string][]string{}})
				c.replyNow(stream, &message.Supported{Options: map[string][]string{}})
			}
			return
		}
		c.replyNow(stream, &message.Supported{Options: map[string][]string{"CQL_VERSION": {"3.4.5"}, "COMPRESSION": {"lz4", "snappy"}}})
	case *message.Startup:
		if !n.supports(hdr.Version) {
			c.Version = n.MaxVersion
			w.Stat("backend.version_rejected")
			c.replyNow(stream, &message.ProtocolError{ErrorMessage: fmt.Sprintf("Invalid or unsupported protocol version (%d); supported versions are (3/v3, 4/v4)", hdr.Version)})
			return
		}
		if c.Started {
			w.Stat("backend.second_startup")
		}
		if n.DropNewConnsAtStartup > 0 {
			// a connection that is lost while it is being set up (a transient failure of that one
			// connection: its siblings are served)
			n.DropNewConnsAtStartup--
			w.Stat("fault.new-connection-lost-at-startup")
			c.Reset("fault: new connection lost at STARTUP")
			return
		}
		c.Version = hdr.Version
		c.Started = true
		if comp, ok := msg.Options["COMPRESSION"]; ok {
			// the READY itself is sent uncompressed
			defer func() { c.Compression = strings.ToLower(comp) }()
		}
		if n.AuthUser != "" {
			c.authPending = true
			a := "org.apache.cassandra.auth.PasswordAuthenticator"
			if n.AuthDSE {
				a = "com.datastax.bdp.cassandra.auth.DseAuthenticator"
			}
			c.replyNow(stream, &message.Authenticate{Authenticator: a})
			return
		}
		c.replyNow(stream, &message.Ready{})
		w.Logf("backend %s: STARTUP %s %v", c, versionName(hdr.Version), msg.Options)
	case *message.AuthResponse:
		want := "\x00" + n.AuthUser + "\x00" + n.AuthPass
		if n.AuthDSE && !c.authStarted {
			if string(msg.Token) == "PLAIN" {
				c.authStarted = true
				w.Stat("backend.auth_challenge")
				c.replyNow(stream, &message.AuthChallenge{Token: []byte("PLAIN-START")})
			} else {
				c.replyNow(stream, &message.AuthenticationError{ErrorMessage: "Unsupported mechanism"})
			}
			return
		}
		if string(msg.Token) == want {
			c.authPending = false
			w.Stat("backend.authenticated")
			c.replyNow(stream, &message.AuthSuccess{})
		} else {
			c.replyNow(stream, &message.AuthenticationError{ErrorMessage: "Provided username and/or password are incorrect"})
		}
	case *message.Register:
		w.Stat("backend.register")
		c.Registered = true
		c.Control = true
		c.replyNow(stream, &message.Ready{})
		w.Logf("backend %s: REGISTER %v (control connection)", c, msg.EventTypes)
		w.controlRegistered(c)
	case *message.Query:
		c.handleQuery(raw, frm, msg)
	case *message.Prepare:
		c.handlePrepare(raw, frm, msg)
	case *message.Execute:
		c.handleExecute(raw, frm, msg)
	case *message.Batch:
		c.handleBatch(raw, frm, msg)
	default:
		w.Logf("backend %s: unexpected %s", c, hdr.OpCode)
		w.UnexpectedAtBackend = append(w.UnexpectedAtBackend, fmt.Sprintf("%s: %s", c, hdr.OpCode))
		c.replyNow(stream, &message.ProtocolError{ErrorMessage: "unexpected message"})
	}
}

func pickVersion(cur, seen primitive.ProtocolVersion) primitive.ProtocolVersion {
	if cur == 0 {
		return seen
	}
	return cur
}

func normKeyspace(ks string) string {
	if len(ks) >= 2 && ks[0] == '"' && ks[len(ks)-1] == '"' {
		return strings.ReplaceAll(ks[1:len(ks)-1], `""`, `"`)
	}
	return strings.ToLower(ks)
}

func (c *BackendConn) handleQuery(raw []byte, frm *frame.Frame, msg *message.Query) {
	w := c.Node.w
	n := c.Node
	stream := frm.Header.StreamId
	q := strings.TrimSpace(msg.Query)
	uq := strings.ToUpper(q)
	switch {
	case n.FailControlQueries && (uq == "SELECT * FROM SYSTEM.LOCAL" || uq == "SELECT * FROM SYSTEM.PEERS"):
		// a node that completes the handshake but cannot serve its system tables
		w.Stat("fault.control-query-fails")
		c.replyNow(stream, &message.Overloaded{ErrorMessage: "overloaded"})
		return
	case n.SilentControlQueries > 0 && (uq == "SELECT * FROM SYSTEM.LOCAL" || uq == "SELECT * FROM SYSTEM.PEERS"):
		// a node that completes the handshake and then says nothing (and keeps the connection open)
		n.SilentControlQueries--
		w.Stat("fault.control-query-unanswered")
		return
	case n.FailPeersQueries > 0 && uq == "SELECT * FROM SYSTEM.PEERS":
		n.FailPeersQueries--
		w.Stat("fault.peers-query-fails")
		c.replyNow(stream, &message.Overloaded{ErrorMessage: "overloaded"})
		return
	case uq == "SELECT * FROM SYSTEM.LOCAL":
		c.Control = true
		w.Stat("backend.system_local")
		c.replyNow(stream, n.localRows(c.Version))
		return
	case uq == "SELECT * FROM SYSTEM.PEERS":
		c.Control = true
		c.AnsweredPeers = true
		w.Stat("backend.system_peers")
		c.replyNow(stream, n.peersRows(c.Version))
		return
	case strings.HasPrefix(uq, "USE "):
		ks := normKeyspace(strings.TrimSpace(strings.TrimSuffix(strings.TrimSpace(stripCQLComments(q[4:])), ";")))
		if n.BusyKeyspaces[ks] {
			// a node that sheds load: the USE is refused for now, not for good
			w.Stat("backend.use_overloaded")
			c.replyNow(stream, &message.Overloaded{ErrorMessage: "overloaded, try again later"})
			return
		}
		if n.Keyspaces != nil && !n.Keyspaces[ks] {
			w.Stat("backend.use_unknown")
			c.replyNow(stream, &message.Invalid{ErrorMessage: fmt.Sprintf("Keyspace '%s' does not exist", ks)})
			return
		}
		if ks == "" {
			c.replyNow(stream, &message.SyntaxError{ErrorMessage: "line 1:4 no viable alternative at input '<EOF>'"})
			return
		}
		c.Keyspace = ks
		w.Stat("backend.use")
		c.replyNow(stream, &message.SetKeyspaceResult{Keyspace: ks})
		return
	}
	c.tokenised(raw, frm, msg, tokenOf(msg))
}

// stripCQLComments removes /* */, -- and // comments (a node treats them as white space).
func stripCQLComments(s string) string {
	var b strings.Builder
	for i := 0; i < len(s); {
		switch {
		case strings.HasPrefix(s[i:], "/*"):
			j := strings.Index(s[i+2:], "*/")
			if j < 0 {
				return b.String()
			}
			i += j + 4
			b.WriteByte(' ')
		case strings.HasPrefix(s[i:], "--"), strings.HasPrefix(s[i:], "//"):
			j := strings.IndexByte(s[i:], '\n')
			if j < 0 {
				return b.String()
			}
			i += j + 1
			b.WriteByte(' ')
		default:
			b.WriteByte(s[i])
			i++
		}
	}
	return b.String()
}

// PreparedID is the id a node returns for PREPARE of query.
func PreparedID(query string) []byte { return preparedID(query, "") }

func preparedID(query, keyspace string) []byte {
	s := md5.Sum([]byte(query + "\x00" + keyspace))
	return s[:]
}

func (c *BackendConn) handlePrepare(raw []byte, frm *frame.Frame, msg *message.Prepare) {
	w := c.Node.w
	n := c.Node
	tok := tokenOf(msg)
	att := w.recordAttempt(c, raw, frm, tok)
	out := w.nextOutcome(tok, att)
	if out.Kind == OutHostile && n.NeverHostile {
		out = OK // (the healthy node answers a PREPARE with PREPARED whatever the script says)
	}
	att.Outcome = out.Name
	switch out.Kind {
	case OutOK:
		ks := msg.Keyspace
		if ks == "" {
			ks = c.Keyspace
		}
		id := preparedID(msg.Query, "")
		n.Prepared[hex.EncodeToString(id)] = msg.Query
		w.Stat("backend.prepare")
		res := &message.PreparedResult{
			PreparedQueryId:   id,
			VariablesMetadata: &message.VariablesMetadata{Columns: bindVariables(msg.Query)},
			ResultMetadata:    &message.RowsMetadata{ColumnCount: 1, Columns: []*message.ColumnMetadata{col("ks", "t", "tok", datatype.Varchar)}},
		}
		if c.Version.SupportsResultMetadataId() {
			rid := md5.Sum([]byte("rm" + msg.Query))
			res.ResultMetadataId = rid[:]
		}
		c.reply(frm.Header.StreamId, res, att, "PREPARED "+tok)
	default:
		c.applyOutcome(out, frm.Header.StreamId, att, tok)
	}
}

func (c *BackendConn) handleExecute(raw []byte, frm *frame.Frame, msg *message.Execute) {
	w := c.Node.w
	n := c.Node
	tok := tokenOf(msg)
	id := hex.EncodeToString(msg.QueryId)
	_, scripted := w.Script[tok]
	if _, ok := n.Prepared[id]; !ok && !(scripted && w.ScriptBeatsUnprepared) {
		att := w.recordAttempt(c, raw, frm, tok)
		att.Outcome = "unprepared(auto)"
		w.Stat("backend.unprepared")
		c.reply(frm.Header.StreamId, &message.Unprepared{ErrorMessage: "Prepared query with ID " + id + " not found", Id: msg.QueryId}, att, "UNPREPARED "+tok)
		return
	}
	c.tokenised(raw, frm, msg, tok)
}

func (c *BackendConn) handleBatch(raw []byte, frm *frame.Frame, msg *message.Batch) {
	w := c.Node.w
	n := c.Node
	tok := tokenOf(msg)
	_, scripted := w.Script[tok]
	for _, ch := range msg.Children {
		if len(ch.Id) > 0 {
			id := hex.EncodeToString(ch.Id)
			if _, ok := n.Prepared[id]; !ok && !(scripted && w.ScriptBeatsUnprepared) {
				att := w.recordAttempt(c, raw, frm, tok)
				att.Outcome = "unprepared(auto)"
				w.Stat("backend.unprepared")
				c.reply(frm.Header.StreamId, &message.Unprepared{ErrorMessage: "Prepared query with ID " + id + " not found", Id: ch.Id}, att, "UNPREPARED "+tok)
				return
			}
		}
	}
	c.tokenised(raw, frm, msg, tok)
}

func (c *BackendConn) tokenised(raw []byte, frm *frame.Frame, msg message.Message, tok string) {
	w := c.Node.w
	att := w.recordAttempt(c, raw, frm, tok)
	out := w.nextOutcome(tok, att)
	att.Outcome = out.Name
	if out.Kind == OutOK {
		w.Stat("backend.ok")
		var res message.Message = tokenRows(tok, c.Version)
		if w.Cfg.BigRowsPerMille > 0 && w.C.Choose("bigrows?", 1000) < w.Cfg.BigRowsPerMille {
			// a result of some size: further rows of padding behind the row that holds the token
			rr := res.(*message.RowsResult)
			pad := make([]byte, []int{3000, 9000, 20000, 70000}[w.C.Choose("bigrows", 4)])
			for i := range pad {
				pad[i] = byte('a' + i%23)
			}
			rr.Data = append(rr.Data, message.Row{pad})
			w.Stat("backend.ok_with_padding_rows")
		}
		if w.ResultFor != nil {
			if r := w.ResultFor(att); r != nil {
				res = r
			}
		}
		c.reply(frm.Header.StreamId, res, att, "ROWS "+tok)
		return
	}
	c.applyOutcome(out, frm.Header.StreamId, att, tok)
}

func (c *BackendConn) applyOutcome(out Outcome, stream int16, att *Attempt, tok string) {
	w := c.Node.w
	switch out.Kind {
	case OutError:
		w.Stat("backend.err." + out.Name)
		c.reply(stream, withToken(out.Err, tok), att, "ERROR("+out.Name+") "+tok)
	case OutRawError:
		w.Stat("backend.err." + out.Name)
		msg := out.Name + " " + tok
		body := []byte{byte(out.RawCode >> 24), byte(out.RawCode >> 16), byte(out.RawCode >> 8), byte(out.RawCode), byte(len(msg) >> 8), byte(len(msg))}
		body = append(append(body, msg...), out.RawTail...)
		if w.ExoticBodies == nil {
			w.ExoticBodies = map[string]string{}
		}
		w.ExoticBodies[string(body)] = out.Name
		v := byte(c.Version) | 0x80
		raw := append([]byte{v, 0, byte(stream >> 8), byte(stream), 0x00, byte(len(body) >> 24), byte(len(body) >> 16), byte(len(body) >> 8), byte(len(body))}, body...)
		c.replyBytes(stream, raw, att, "ERROR("+out.Name+") "+tok)
	case OutSilentDrop:
		w.Stat("backend.silent_drop")
		w.hold(&heldReply{conn: c, att: att, desc: "DROP-AFTER-SILENCE " + tok, drop: true})
	case OutDropNow:
		w.Stat("backend.drop_now")
		att.Dropped = true
		c.Reset("scripted drop for " + tok)
	case OutHang:
		w.Stat("fault.connection-hangs")
		w.Logf("backend %s: HANGS from now on (request %s)", c, tok)
		c.Hung = true
	case OutHostile:
		if c.Node.NeverHostile {
			att.Outcome = "ok"
			c.reply(stream, tokenRows(tok, c.Version), att, "ROWS "+tok)
			return
		}
		c.hostile(out.Hostile, stream, att, tok)
	}
}

// freeStream returns a stream id on which the proxy has nothing outstanding at this connection.
func (c *BackendConn) freeStream() int16 {
	for s := int16(2047); s >= 0; s-- {
		if !c.Outstanding[s] {
			return s
		}
	}
	return 2047
}

var HostileKinds = []string{"wrong-stream", "request-opcode-as-response", "short-error-body", "garbage-bytes", "reply-twice",
	"huge-length-then-silence", "unprepared-for-cached-id", "unknown-result-kind", "garbage-event", "direction-bit-missing",
	"truncated-rows", "error-with-bad-code", "zero-length-result",
	"negative-stream-ready", "negative-stream-result", "min-stream-error", "max-stream-result", "unsolicited-ready-then-answer",
	"flagged-short-body", "result-of-another-kind", "result-with-hostile-counts"}

// hostile answers a request the way no healthy Cassandra node would (C17).
func (c *BackendConn) hostile(kind int, stream int16, att *Attempt, tok string) {
	w := c.Node.w
	name := HostileKinds[kind%len(HostileKinds)]
	variant := kind / len(HostileKinds) // drawn by the scenario; 0 when it draws none
	w.Stat("fault.hostile-backend." + name)
	w.Logf("backend %s: HOSTILE reply %s for %s", c, name, tok)
	att.Outcome = "hostile:" + name
	v := byte(c.Version) | 0x80
	hdr := func(stream int16, op byte, n int) []byte {
		return []byte{v, 0, byte(stream >> 8), byte(stream), op, byte(n >> 24), byte(n >> 16), byte(n >> 8), byte(n)}
	}
	ok := encodeFrame(c.Compression, frame.NewFrame(c.Version, stream, tokenRows(tok, c.Version)))
	switch name {
	case "wrong-stream":
		c.Link.PeerWrite(encodeFrame(c.Compression, frame.NewFrame(c.Version, c.freeStream(), tokenRows(tok, c.Version))))
	case "request-opcode-as-response":
		c.Link.PeerWrite(hdr(stream, 0x07, 0))
	case "short-error-body":
		c.Link.PeerWrite(append(hdr(stream, 0x00, 2), 0x25, 0x00))
	case "garbage-bytes":
		c.Link.PeerWrite([]byte("\x00\xff this is not a frame \x01\x02\x03\x04\x05\x06\x07\x08"))
	case "reply-twice":
		c.Link.PeerWrite(ok)
		c.Link.PeerWrite(ok)
		att.Replied = true
		att.ReplyRaw = ok
	case "huge-length-then-silence":
		c.Link.PeerWrite(hdr(stream, 0x08, 16<<20))
	case "unprepared-for-cached-id":
		id := w.HostileUnpreparedID
		if id == nil {
			id = []byte("0123456789abcdef")
		}
		c.Link.PeerWrite(encodeFrame(c.Compression, frame.NewFrame(c.Version, stream, &message.Unprepared{ErrorMessage: "unprepared", Id: id})))
	case "result-of-another-kind":
		// a well-formed RESULT, only not of the kind the request calls for (VOID or SET_KEYSPACE
		// where PREPARED or ROWS is due, and so on)
		var m message.Message = &message.VoidResult{}
		switch variant % 3 {
		case 1:
			m = &message.SetKeyspaceResult{Keyspace: "ks_hostile"}
		case 2:
			m = &message.SchemaChangeResult{ChangeType: primitive.SchemaChangeTypeCreated, Target: primitive.SchemaChangeTargetKeyspace, Keyspace: "ks_hostile"}
		}
		c.Link.PeerWrite(encodeFrame(c.Compression, frame.NewFrame(c.Version, stream, m)))
	case "result-with-hostile-counts":
		// a RESULT (or ERROR) whose body announces a negative or large count where the proxy, if it
		// decodes the message at all, allocates by it (never near 2^31: see C17 in DESIGN.md)
		cnt := []uint32{0xffffffff, 0x80000000, 0x00100000, 0xfffffffe}[variant%4]
		var body []byte
		i32 := func(v uint32) { body = append(body, byte(v>>24), byte(v>>16), byte(v>>8), byte(v)) }
		op := byte(0x08)
		switch (variant / 4) % 4 {
		case 0: // Rows: column count
			i32(2)
			i32(0)
			i32(cnt)
		case 1: // Rows: one column, rows count
			i32(2)
			i32(1)
			i32(1)
			body = append(body, 0, 2, 'k', 's', 0, 1, 't', 0, 1, 'c', 0, 13)
			i32(cnt)
		case 2: // Prepared: variables column count
			i32(4)
			body = append(body, 0, 2, 'i', 'd')
			if c.Version.SupportsResultMetadataId() {
				body = append(body, 0, 2, 'r', 'm')
			}
			i32(0)
			i32(cnt)
			i32(0)
		case 3: // ERROR write failure with a hostile reason count
			op = 0x00
			i32(0x1500)
			body = append(body, 0, 1, 'x', 0, 1)
			i32(1)
			i32(1)
			i32(cnt)
			body = append(body, 0, 6, 'S', 'I', 'M', 'P', 'L', 'E')
		}
		c.Link.PeerWrite(append(hdr(stream, op, len(body)), body...))
	case "unknown-result-kind":
		c.Link.PeerWrite(append(hdr(stream, 0x08, 4), 0, 0, 0, 0x99))
	case "garbage-event":
		c.Link.PeerWrite(append(hdr(-1, 0x0C, 6), 0, 4, 'J', 'U', 'N', 'K'))
	case "direction-bit-missing":
		b := append([]byte(nil), ok...)
		b[0] &= 0x7f
		c.Link.PeerWrite(b)
	case "truncated-rows":
		c.Link.PeerWrite(append(hdr(stream, 0x08, 9), 0, 0, 0, 2, 0, 0, 0, 1, 0))
	case "error-with-bad-code":
		c.Link.PeerWrite(append(hdr(stream, 0x00, 10), 0x7f, 0xff, 0xff, 0xff, 0, 4, 'o', 'o', 'p', 's'))
	case "zero-length-result":
		c.Link.PeerWrite(hdr(stream, 0x08, 0))
	case "negative-stream-ready":
		// stream ids below zero are reserved for events; a non-event frame carrying one is unsolicited
		c.Link.PeerWrite(hdr(-1, 0x02, 0))
	case "negative-stream-result":
		c.Link.PeerWrite(encodeFrame(c.Compression, frame.NewFrame(c.Version, -2-int16(kind%7), tokenRows(tok, c.Version))))
	case "min-stream-error":
		c.Link.PeerWrite(append(hdr(-32768, 0x00, 10), 0, 0, 0, 0, 0, 4, 'o', 'o', 'p', 's'))
	case "max-stream-result":
		c.Link.PeerWrite(encodeFrame(c.Compression, frame.NewFrame(c.Version, 32767, tokenRows(tok, c.Version))))
	case "flagged-short-body":
		// header flags announce a tracing id (16 bytes), warnings or a custom payload that the
		// body is too short to hold
		b := hdr(stream, []byte{0x00, 0x08}[(variant/64)%2], 0)
		b[1] = []byte{0x02, 0x04, 0x08, 0x0a, 0x0e, 0x06, 0x03, 0xfe}[variant%8]
		n := []int{0, 1, 4, 15, 16, 17, 19, 20}[(variant/8)%8]
		b[8] = byte(n)
		c.Link.PeerWrite(append(b, make([]byte, n)...))
	case "unsolicited-ready-then-answer":
		c.Link.PeerWrite(hdr(-1, 0x02, 0))
		c.Link.PeerWrite(ok)
		att.Replied = true
		att.ReplyRaw = ok
	}
}

// withToken returns a copy of the error whose message ends with the request token, so that
// a client can tell which request an error frame answers (C02).
func withToken(e message.Error, tok string) message.Message {
	cp := e.DeepCopyMessage()
	v := reflect.ValueOf(cp)
	if v.Kind() == reflect.Ptr {
		if f := v.Elem().FieldByName("ErrorMessage"); f.IsValid() && f.CanSet() && f.Kind() == reflect.String {
			f.SetString(f.String() + " " + tok)
		}
	}
	return cp
}

// ---------------------------------------------------------------- system tables

// Sentinel values that must never reach a client (C09): the proxy answers system.local/peers itself.
const SentinelClusterName = "REAL-BACKEND-CLUSTER"

var localColumns = []*message.ColumnMetadata{
	col("system", "local", "key", datatype.Varchar),
	col("system", "local", "rpc_address", datatype.Inet),
	col("system", "local", "data_center", datatype.Varchar),
	col("system", "local", "rack", datatype.Varchar),
	col("system", "local", "tokens", datatype.NewList(datatype.Varchar)),
	col("system", "local", "release_version", datatype.Varchar),
	col("system", "local", "partitioner", datatype.Varchar),
	col("system", "local", "cluster_name", datatype.Varchar),
	col("system", "local", "cql_version", datatype.Varchar),
	col("system", "local", "host_id", datatype.Uuid),
	col("system", "local", "dse_version", datatype.Varchar),
}

var peersColumns = []*message.ColumnMetadata{
	col("system", "peers", "peer", datatype.Inet),
	col("system", "peers", "rpc_address", datatype.Inet),
	col("system", "peers", "data_center", datatype.Varchar),
	col("system", "peers", "rack", datatype.Varchar),
	col("system", "peers", "tokens", datatype.NewList(datatype.Varchar)),
	col("system", "peers", "release_version", datatype.Varchar),
	col("system", "peers", "host_id", datatype.Uuid),
	col("system", "peers", "dse_version", datatype.Varchar),
}

const (
	BackendReleaseVersion = "4.0.1-backend"
	BackendPartitioner    = "org.apache.cassandra.dht.Murmur3Partitioner"
	BackendCQLVersion     = "3.4.5"
	BackendDSEVersion     = "6.8.0"
)

func (n *Node) dseCol(v primitive.ProtocolVersion) []byte {
	if n.DSE {
		return encVarchar(BackendDSEVersion, v)
	}
	return nil
}

func (n *Node) localRows(v primitive.ProtocolVersion) *message.RowsResult {
	ip := n.IP
	if n.AnnounceIP != nil {
		ip = n.AnnounceIP
	}
	row := message.Row{
		encVarchar("local", v), encInet(ip, v), encVarchar(n.DC, v), encVarchar("rack-backend", v),
		encStrList([]string{"12345"}, v), encVarchar(BackendReleaseVersion, v), encVarchar(BackendPartitioner, v),
		encVarchar(SentinelClusterName, v), encVarchar(BackendCQLVersion, v), encUUID(n.HostID, v), n.dseCol(v),
	}
	if n.OddLocalRows > 0 {
		// a well-framed answer with unexpected content: a null where the proxy reads this node's
		// address, data centre or host id (a node in a strange state, or a hostile one)
		n.OddLocalRows--
		n.w.Stat("fault.hostile-backend.system_local_with_null_column")
		row[[]int{1, 2, 9, 1}[n.OddLocalKind%4]] = nil
		if n.OddLocalKind%4 == 3 {
			row[2] = nil
		}
	}
	return &message.RowsResult{
		Metadata: &message.RowsMetadata{ColumnCount: int32(len(localColumns)), Columns: localColumns},
		Data:     message.RowSet{row},
	}
}

func (n *Node) peersRows(v primitive.ProtocolVersion) *message.RowsResult {
	var rows message.RowSet
	for _, p := range n.w.Nodes {
		if p == n || !p.InCluster {
			continue
		}
		rows = append(rows, message.Row{
			encInet(p.IP, v), encInet(p.IP, v), encVarchar(p.DC, v), encVarchar("rack-backend", v),
			encStrList([]string{"67890"}, v), encVarchar(BackendReleaseVersion, v), encUUID(p.HostID, v), p.dseCol(v),
		})
	}
	return &message.RowsResult{
		Metadata: &message.RowsMetadata{ColumnCount: int32(len(peersColumns)), Columns: peersColumns},
		Data:     rows,
	}
}

// ---------------------------------------------------------------- node-level faults

// Crash resets every connection and refuses new ones until Restart.
func (n *Node) Crash() {
	n.Up = false
	for _, c := range append([]*BackendConn(nil), n.Conns...) {
		c.Reset("node crash")
	}
	n.w.Logf("node %s: CRASH", n)
}

// Unstall ends a stall: the frames that arrived meanwhile are processed now.
func (n *Node) Unstall() {
	n.Stalled = false
	n.readAgain()
	n.w.Logf("node %s: stall ends", n)
	for _, c := range append([]*BackendConn(nil), n.Conns...) {
		q := c.stalled
		c.stalled = nil
		for _, raw := range q {
			if c.Closed || c.Link.IsReset() {
				break
			}
			c.handle(raw)
		}
	}
}

// Restart brings the node back with an empty prepared-statement set.
func (n *Node) Restart() {
	n.Up = true
	n.Stalled = false
	n.readAgain()
	n.Blackhole = false
	n.Prepared = map[string]string{}
	n.Restarts++
	n.w.Logf("node %s: RESTART (prepared statements lost)", n)
}

func (n *Node) LiveConns() []*BackendConn {
	var out []*BackendConn
	for _, c := range n.Conns {
		if !c.Closed {
			out = append(out, c)
		}
	}
	return out
}

// bindVariables describes the bind markers of a statement the way a node does: one column per
// marker, typed by its position (the index of a list element is an int named idx(l), the operand
// of l = l + ? has the list's type, of c = c + ? the counter's, anything else is text).
func bindVariables(query string) []*message.ColumnMetadata {
	var cols []*message.ColumnMetadata
	for i := 0; i < len(query); i++ {
		if query[i] != '?' {
			continue
		}
		before := strings.TrimRight(query[:i], " ")
		switch {
		case strings.HasSuffix(before, "l["):
			cols = append(cols, col("ks", "t", "idx(l)", datatype.Int))
		case strings.HasSuffix(before, "l +"):
			cols = append(cols, col("ks", "t", "l", datatype.NewList(datatype.Int)))
		case strings.HasSuffix(before, "c +"):
			cols = append(cols, col("ks", "t", "c", datatype.Counter))
		default:
			cols = append(cols, col("ks", "t", "v", datatype.Varchar))
		}
	}
	if len(cols) == 0 {
		cols = append(cols, col("ks", "t", "v", datatype.Varchar))
	}
	return cols
}
