package world

import (
	"testing"

	"cqlsim/choice"

	"github.com/datastax/cql-proxy/parser"
)

// Cross-check of the generator's ground truth with the real classifier (diagnostic only).
func TestCQLGenAgainstClassifier(t *testing.T) {
	bad := map[string]int{}
	n := 0
	for seed := uint64(1); seed < 20000; seed++ {
		c := choice.NewSeeded(seed)
		g := GenCQL(c, "tok1x", true)
		idem, _ := parser.IsQueryIdempotent(g.Text)
		n++
		if idem {
			bad[g.Why+" :: "+g.Text]++
		}
	}
	k := 0
	for s, cnt := range bad {
		if k < 40 {
			t.Errorf("classified idempotent (%d x): %s", cnt, s)
		}
		k++
	}
	t.Logf("%d statements, %d distinct misclassified", n, len(bad))
}
