package world

import (
	"fmt"
	"time"

	"cqlsim/simnet"

	"github.com/datastax/go-cassandra-native-protocol/frame"
	"github.com/datastax/go-cassandra-native-protocol/message"
	"github.com/datastax/go-cassandra-native-protocol/primitive"
)

// Client is a fake driver connection: an inline state machine that encodes requests with the
// reference codec and decodes every byte it receives.
type Client struct {
	w                    *World
	ID                   int
	Link                 *simnet.Link
	Version              primitive.ProtocolVersion
	Compression          string // as negotiated by STARTUP ("" none)
	inbuf                []byte
	Outstanding          map[int16]*ClientReq
	Reqs                 []*ClientReq
	Events               []*frame.Frame // EVENT frames (stream -1)
	Closed               bool           // the proxy closed the connection (or it was reset)
	Gone                 bool           // the client disconnected on purpose
	Ready                bool
	nextStream           int16
	Keyspace             string // model: last successful USE
	UndecodableFromProxy []string
	Unsolicited          []string
	ProxyID              int  // which proxy instance it is connected to
	TolerateGarbage      bool // the scenario judges undecodable bytes itself (C13, C17)
	Hostile              bool // sends mutated frames: replies cannot be attributed
	LowestFree           bool // stream policy: always reuse the lowest free id (immediate reuse)
}

// ClientReq is one request frame sent by a client and everything that came back on its stream.
type ClientReq struct {
	Client  *Client
	Token   string
	Stream  int16
	Kind    string // query/prepare/execute/batch/options/startup/register/use/system/raw
	Raw     []byte
	Msg     message.Message
	SentSeq uint64
	SentAt  time.Duration
	Replies []*ClientReply
	// ground truth supplied by the generator
	Idempotent bool
	Expect     string // free-form expectation tag used by property oracles
	User       interface{}
}

type ClientReply struct {
	Seq   uint64
	At    time.Duration
	Raw   []byte
	Frame *frame.Frame
	Err   string // decode error, if any
	// Exotic: the frame is an ERROR response a backend sent on purpose that the reference codec
	// cannot decode (outcome name); Frame is nil
	Exotic string
}

func (r *ClientReq) String() string {
	return fmt.Sprintf("c%d/s%d/%s/%s", r.Client.ID, r.Stream, r.Kind, r.Token)
}

func (c *Client) String() string { return fmt.Sprintf("client%d", c.ID) }

func (c *Client) OnClose(l *simnet.Link) {
	c.Closed = true
	c.w.Logf("%s: connection closed by proxy", c)
}

func (c *Client) OnData(l *simnet.Link, b []byte) {
	w := c.w
	c.inbuf = append(c.inbuf, b...)
	for _, raw := range splitFrames(&c.inbuf) {
		rep := &ClientReply{Seq: w.nextSeq(), At: w.Now(), Raw: raw}
		frm, err := decodeFrame(c.Compression, raw)
		if err != nil && len(raw) >= 9 && raw[4] == 0x00 && raw[1] == 0 && w.ExoticBodies[string(raw[9:])] != "" {
			// an ERROR response that a backend sent on purpose and that only the codec library cannot
			// decode (a newer error code): a legitimate answer, delivered undecoded
			rep.Exotic = w.ExoticBodies[string(raw[9:])]
			stream := int16(raw[2])<<8 | int16(raw[3])
			req := c.Outstanding[stream]
			if req == nil {
				w.Violate("unsolicited", "duplicate-or-unsolicited-response", fmt.Sprintf("client received an ERROR frame (%s) on stream %d with no request outstanding on it", rep.Exotic, stream))
				continue
			}
			delete(c.Outstanding, stream)
			req.Replies = append(req.Replies, rep)
			w.Logf("%s: <- %s reply ERROR %s (undecoded)", c, req, rep.Exotic)
			if w.OnReply != nil {
				w.OnReply(req, rep)
			}
			continue
		}
		if err != nil {
			rep.Err = err.Error()
			c.UndecodableFromProxy = append(c.UndecodableFromProxy, fmt.Sprintf("%v: %x", err, raw[:min(len(raw), 32)]))
			w.Logf("%s: undecodable frame from proxy: %v", c, err)
			if !c.Hostile && !c.TolerateGarbage {
				// a well-behaved client was sent bytes that are not a frame of its protocol version
				// and compression
				w.Violate("client-stream", "client-received-undecodable-bytes", fmt.Sprintf("%s (%s, compression %q) received bytes the reference codec cannot decode: %v", c, versionName(c.Version), c.Compression, err))
			}
			continue
		}
		rep.Frame = frm
		stream := frm.Header.StreamId
		if frm.Header.OpCode != primitive.OpCodeEvent && frm.Header.Version != c.Version && !c.Hostile && !c.TolerateGarbage {
			// (events are another matter: the proxy frames them in the cluster's version, DESIGN section 10)
			w.Violate("client-stream", "response-in-another-protocol-version", fmt.Sprintf("%s speaks %s but received a %v response whose header says %s (stream %d)", c, versionName(c.Version), frm.Header.OpCode, versionName(frm.Header.Version), stream))
		}
		if frm.Header.OpCode == primitive.OpCodeEvent {
			c.Events = append(c.Events, frm)
			w.Logf("%s: <- EVENT %v", c, frm.Body.Message)
			if w.OnClientEvent != nil {
				w.OnClientEvent(c, frm)
			}
			continue
		}
		req := c.Outstanding[stream]
		if req == nil {
			s := fmt.Sprintf("%s: frame on stream %d with no outstanding request: %v", c, stream, frm.Body.Message)
			c.Unsolicited = append(c.Unsolicited, s)
			w.Logf("%s", s)
			if c.Hostile {
				continue // this client mutates its own frames (stream ids included)
			}
			w.Violate("unsolicited", "duplicate-or-unsolicited-response",
				fmt.Sprintf("client received a frame on stream %d with no request outstanding on it: %v", stream, frm.Body.Message))
			continue
		}
		delete(c.Outstanding, stream)
		req.Replies = append(req.Replies, rep)
		w.Logf("%s: <- %s reply %v", c, req, briefMsg(frm.Body.Message))
		if w.OnReply != nil {
			w.OnReply(req, rep)
		}
	}
}

func briefMsg(m message.Message) string {
	s := fmt.Sprint(m)
	if len(s) > 90 {
		s = s[:90] + "..."
	}
	return s
}

// FreeStream returns a stream id with no outstanding request (streams are reused as soon as
// they are answered).
func (c *Client) FreeStream() int16 {
	if c.LowestFree {
		for s := int16(0); s >= 0; s++ {
			if _, busy := c.Outstanding[s]; !busy {
				return s
			}
		}
	}
	for i := 0; i < 32768; i++ {
		s := c.nextStream
		c.nextStream++
		if c.nextStream < 0 {
			c.nextStream = 0
		}
		if _, busy := c.Outstanding[s]; !busy {
			return s
		}
	}
	panic("client: no free stream")
}

// Send encodes msg with the reference codec and queues it towards the proxy.
func (c *Client) Send(kind, token string, msg message.Message, mod func(*frame.Frame)) *ClientReq {
	stream := c.FreeStream()
	return c.SendOn(stream, kind, token, msg, mod)
}

func (c *Client) SendOn(stream int16, kind, token string, msg message.Message, mod func(*frame.Frame)) *ClientReq {
	frm := frame.NewFrame(c.Version, stream, msg)
	if c.Compression != "" && kind != "startup" && kind != "options" {
		frm.SetCompress(true)
	}
	if mod != nil {
		mod(frm)
	}
	raw := encodeFrame(c.Compression, frm)
	return c.SendRaw(stream, kind, token, raw, msg)
}

// SendRaw queues pre-encoded bytes as one request on the given stream.
func (c *Client) SendRaw(stream int16, kind, token string, raw []byte, msg message.Message) *ClientReq {
	req := &ClientReq{Client: c, Token: token, Stream: stream, Kind: kind, Raw: raw, Msg: msg,
		SentSeq: c.w.nextSeq(), SentAt: c.w.Now()}
	c.Outstanding[stream] = req
	c.Reqs = append(c.Reqs, req)
	c.Link.PeerWrite(raw)
	c.w.Logf("%s: -> %s [% x] len=%d", c, req, raw[:min(len(raw), 9)], len(raw))
	return req
}

// StopReading: the client stops reading from its socket; the proxy can write sndbuf more bytes
// before its writes block.
func (c *Client) StopReading(sndbuf int) {
	c.Link.SetNoRead(true, sndbuf)
	c.w.Logf("%s: STOPS READING (send buffer %d)", c, sndbuf)
}

// Disconnect closes the client's side (FIN after pending bytes).
func (c *Client) Disconnect() {
	if c.Gone {
		return
	}
	c.Gone = true
	c.Link.PeerClose()
	c.w.Logf("%s: DISCONNECT", c)
}

// Abort resets the client's connection.
func (c *Client) Abort() {
	if c.Gone {
		return
	}
	c.Gone = true
	c.Link.PeerReset()
	c.w.Logf("%s: ABORT", c)
}

func (c *Client) Connected() bool { return !c.Gone && !c.Closed && !c.Link.IsReset() }
