package world

import (
	"testing"

	"cqlsim/choice"

	"github.com/datastax/go-cassandra-native-protocol/frame"
	"github.com/datastax/go-cassandra-native-protocol/primitive"
)

// The generators must only produce frames the reference codec itself can decode.
func TestGenRoundTrip(t *testing.T) {
	bad := map[string]int{}
	for seed := uint64(1); seed < 3000; seed++ {
		c := choice.NewSeeded(seed)
		for _, v := range []primitive.ProtocolVersion{3, 4, 5, primitive.ProtocolVersionDse1, primitive.ProtocolVersionDse2} {
			for _, comp := range []string{"", "lz4", "snappy"} {
				if v == 5 && comp == "snappy" {
					continue
				}
				g := GenRequest(c, v, "tok1x", [][]byte{[]byte("0123456789abcdef")}, []bool{false}, 5000)
				fr := frame.NewFrame(v, 1, g.Msg)
				if comp != "" {
					fr.SetCompress(true)
				}
				g.Mod(fr)
				raw := encodeFrame(comp, fr)
				if _, err := decodeFrame(comp, raw); err != nil {
					bad[g.Desc+" "+comp+": "+err.Error()]++
				}
			}
		}
	}
	for k, n := range bad {
		t.Errorf("%d x %s", n, k)
	}
}
