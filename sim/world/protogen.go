package world

import (
	"fmt"

	"cqlsim/choice"

	"github.com/datastax/go-cassandra-native-protocol/datatype"
	"github.com/datastax/go-cassandra-native-protocol/frame"
	"github.com/datastax/go-cassandra-native-protocol/message"
	"github.com/datastax/go-cassandra-native-protocol/primitive"
)

// Protocol-grammar generators: requests and responses over the option space of the native
// protocol, encoded by the reference codec. Used by C03 (byte transparency) and C12 (override).

var AllConsistencies = []primitive.ConsistencyLevel{
	primitive.ConsistencyLevelAny, primitive.ConsistencyLevelOne, primitive.ConsistencyLevelTwo, primitive.ConsistencyLevelThree,
	primitive.ConsistencyLevelQuorum, primitive.ConsistencyLevelAll, primitive.ConsistencyLevelLocalQuorum, primitive.ConsistencyLevelEachQuorum,
	primitive.ConsistencyLevelSerial, primitive.ConsistencyLevelLocalSerial, primitive.ConsistencyLevelLocalOne,
}

func genBytes(c *choice.Stream, max int) []byte {
	n := 0
	switch c.Choose("blen", 6) {
	case 0:
		n = 0
	case 1:
		n = 1 + c.Choose("b1", 8)
	case 2:
		n = 1 + c.Choose("b2", 200)
	case 3:
		n = 1 + c.Choose("b3", 5000)
	default:
		n = 1 + c.Choose("b4", max)
	}
	if n > max {
		n = max
	}
	b := make([]byte, n)
	x := uint32(c.Choose("bseed", 1<<20)) | 1
	for i := range b {
		x ^= x << 13
		x ^= x >> 17
		x ^= x << 5
		b[i] = byte(x)
	}
	return b
}

func genValue(c *choice.Stream, v primitive.ProtocolVersion, max int) *primitive.Value {
	switch c.Choose("valkind", 8) {
	case 0:
		return primitive.NewNullValue()
	case 1:
		if v >= primitive.ProtocolVersion4 {
			return primitive.NewUnsetValue()
		}
	}
	return primitive.NewValue(genBytes(c, max))
}

// GenOptions draws query options valid for version v; tok (if not empty) is placed in the first value.
func GenOptions(c *choice.Stream, v primitive.ProtocolVersion, tok string, maxVal int) *message.QueryOptions {
	o := &message.QueryOptions{Consistency: AllConsistencies[c.Choose("cl", len(AllConsistencies))]}
	nvals := c.Choose("nvals", 4)
	if tok != "" && nvals == 0 {
		nvals = 1
	}
	if nvals > 0 {
		if c.Choose("named", 4) == 3 && v >= primitive.ProtocolVersion3 {
			o.NamedValues = map[string]*primitive.Value{}
			for i := 0; i < nvals; i++ {
				o.NamedValues[fmt.Sprintf("v%d", i)] = genValue(c, v, maxVal)
			}
			if tok != "" {
				o.NamedValues["v0"] = primitive.NewValue([]byte(tok))
			}
			if len(o.NamedValues) > 1 {
				// the wire order of a map is not defined: keep a single entry so that encodings are reproducible
				o.NamedValues = map[string]*primitive.Value{"v0": o.NamedValues["v0"]}
			}
		} else {
			for i := 0; i < nvals; i++ {
				o.PositionalValues = append(o.PositionalValues, genValue(c, v, maxVal))
			}
			if tok != "" {
				o.PositionalValues[0] = primitive.NewValue([]byte(tok))
			}
		}
	}
	o.SkipMetadata = c.Choose("skipmeta", 3) == 2
	if c.Choose("paged", 3) == 2 {
		o.PageSize = int32(1 + c.Choose("pagesize", 5000))
		if v.IsDse() && c.Choose("pagebytes", 3) == 2 {
			o.PageSizeInBytes = true
		}
		if c.Choose("pagestate", 2) == 1 {
			o.PagingState = genBytes(c, 300)
			if len(o.PagingState) == 0 {
				o.PagingState = []byte{1}
			}
		}
	}
	if c.Choose("serial", 3) == 2 {
		sc := []primitive.ConsistencyLevel{primitive.ConsistencyLevelSerial, primitive.ConsistencyLevelLocalSerial}[c.Choose("scl", 2)]
		o.SerialConsistency = &sc
	}
	if c.Choose("ts", 3) == 2 {
		ts := int64(c.Choose("tsv", 1<<30)) - 1<<29
		o.DefaultTimestamp = &ts
	}
	if v.SupportsQueryFlag(primitive.QueryFlagWithKeyspace) && c.Choose("optks", 4) == 3 {
		o.Keyspace = "ks"
	}
	if v.SupportsQueryFlag(primitive.QueryFlagNowInSeconds) && c.Choose("nowsec", 4) == 3 {
		n := int32(c.Choose("nowv", 1<<30))
		o.NowInSeconds = &n
	}
	if v.IsDse() && o.PageSize > 0 && c.Choose("contpaging", 4) == 3 {
		o.ContinuousPagingOptions = &message.ContinuousPagingOptions{MaxPages: int32(c.Choose("maxpages", 10)), PagesPerSecond: int32(c.Choose("pps", 10))}
		if v == primitive.ProtocolVersionDse2 {
			o.ContinuousPagingOptions.NextPages = int32(c.Choose("nextpages", 5))
		}
	}
	return o
}

type GenReq struct {
	Kind   string
	Msg    message.Message
	Mod    func(*frame.Frame)
	Select bool // statement text is a SELECT (C12: never overridden)
	CL     primitive.ConsistencyLevel
	Desc   string
}

// ForeignPrepared registers a statement at every node as if prepared directly at the cluster.
func (w *World) ForeignPrepared(id []byte, text string) {
	for _, n := range w.Nodes {
		n.Prepared[fmt.Sprintf("%x", id)] = text
	}
}

// GenRequest draws a forwarded request (QUERY, EXECUTE, BATCH or PREPARE) for version v.
// execIDs are prepared ids every node knows (with whether their text is a SELECT).
func GenRequest(c *choice.Stream, v primitive.ProtocolVersion, tok string, execIDs [][]byte, execSelect []bool, maxVal int) GenReq {
	var g GenReq
	kind := c.Weighted("reqkind", []int{5, 4, 3, 1})
	if kind == 1 && len(execIDs) == 0 {
		kind = 0
	}
	mutation := []string{
		"INSERT INTO ks.t (k, v) VALUES ('%s', ?)", "UPDATE ks.t SET v = ? WHERE k = '%s'", "DELETE FROM ks.t WHERE k = '%s'",
		"UPDATE ks.cnt SET c = c + 1 WHERE k = '%s'", "INSERT INTO ks.t (k, v) VALUES ('%s', now())",
	}
	switch kind {
	case 0:
		text := ""
		if c.Choose("qsel", 3) == 0 {
			text = fmt.Sprintf("SELECT * FROM ks.t WHERE k = '%s'", tok)
			g.Select = true
		} else {
			text = fmt.Sprintf(mutation[c.Choose("qmut", len(mutation))], tok)
		}
		o := GenOptions(c, v, "", maxVal)
		g.Kind, g.Msg, g.CL = "query", &message.Query{Query: text, Options: o}, o.Consistency
	case 1:
		i := c.Choose("execid", len(execIDs))
		o := GenOptions(c, v, tok, maxVal)
		ex := &message.Execute{QueryId: execIDs[i], Options: o}
		if v.SupportsResultMetadataId() {
			ex.ResultMetadataId = genBytes(c, 16)
			if len(ex.ResultMetadataId) == 0 {
				ex.ResultMetadataId = []byte{7}
			}
		}
		g.Kind, g.Msg, g.Select, g.CL = "execute", ex, execSelect[i], o.Consistency
	case 2:
		b := &message.Batch{Type: []primitive.BatchType{primitive.BatchTypeLogged, primitive.BatchTypeUnlogged, primitive.BatchTypeCounter}[c.Choose("btype", 3)],
			Consistency: AllConsistencies[c.Choose("bcl", len(AllConsistencies))]}
		n := 1 + c.Choose("bn", 4)
		for j := 0; j < n; j++ {
			ch := &message.BatchChild{}
			if len(execIDs) > 0 && c.Choose("bchild", 3) == 2 {
				ch.Id = execIDs[c.Choose("bid", len(execIDs))]
			} else {
				ch.Query = fmt.Sprintf(mutation[c.Choose("bmut", len(mutation))], tok)
			}
			for k := 0; k < c.Choose("bvals", 3); k++ {
				ch.Values = append(ch.Values, genValue(c, v, maxVal))
			}
			if j == 0 && ch.Query == "" {
				ch.Values = append([]*primitive.Value{primitive.NewValue([]byte(tok))}, ch.Values...)
			}
			b.Children = append(b.Children, ch)
		}
		if c.Choose("bserial", 3) == 2 {
			sc := []primitive.ConsistencyLevel{primitive.ConsistencyLevelSerial, primitive.ConsistencyLevelLocalSerial}[c.Choose("bscl", 2)]
			b.SerialConsistency = &sc
		}
		if c.Choose("bts", 3) == 2 {
			ts := int64(c.Choose("btsv", 1<<30))
			b.DefaultTimestamp = &ts
		}
		if v.SupportsQueryFlag(primitive.QueryFlagWithKeyspace) && c.Choose("bks", 4) == 3 {
			b.Keyspace = "ks"
		}
		if v.SupportsQueryFlag(primitive.QueryFlagNowInSeconds) && c.Choose("bnow", 4) == 3 {
			n := int32(c.Choose("bnowv", 1<<30))
			b.NowInSeconds = &n
		}
		g.Kind, g.Msg, g.CL = "batch", b, b.Consistency
	case 3:
		p := &message.Prepare{Query: fmt.Sprintf(mutation[c.Choose("pmut", 3)], tok)}
		if v.SupportsQueryFlag(primitive.QueryFlagWithKeyspace) && c.Choose("pks", 3) == 2 {
			p.Keyspace = "ks"
		}
		g.Kind, g.Msg = "prepare", p
	}
	tracing := c.Choose("tracing", 4) == 3
	payload := v >= primitive.ProtocolVersion4 && c.Choose("payload", 4) == 3
	var pl map[string][]byte
	if payload {
		pl = map[string][]byte{"k": genBytes(c, 64)}
	}
	// rarer header shapes: the USE_BETA flag (drivers that negotiate beta versions set it on every
	// frame), and the CUSTOM_PAYLOAD flag over an empty payload map
	beta := c.Choose("usebeta", 8) == 7
	emptyPayload := payload && c.Choose("emptypayload", 4) == 3
	g.Mod = func(f *frame.Frame) {
		if tracing {
			f.RequestTracingId(true)
		}
		if payload {
			f.SetCustomPayload(pl)
			if emptyPayload {
				f.Body.CustomPayload = map[string][]byte{}
				f.Header.Flags = f.Header.Flags.Add(primitive.HeaderFlagCustomPayload)
			}
		}
		if beta {
			f.Header.Flags = f.Header.Flags.Add(primitive.HeaderFlagUseBeta)
		}
	}
	g.Desc = fmt.Sprintf("%s %s cl=%v tracing=%v payload=%v", g.Kind, v, g.CL, tracing, payload)
	if beta {
		g.Desc += " use-beta"
	}
	if emptyPayload {
		g.Desc += " empty-payload"
	}
	return g
}

// GenResponse draws a response of any kind for a tokenised request.
func GenResponse(c *choice.Stream, v primitive.ProtocolVersion, tok string) (message.Message, func(*frame.Frame), string) {
	var msg message.Message
	name := ""
	switch c.Choose("respkind", 12) {
	case 0, 1, 2:
		rows := tokenRows(tok, v)
		if c.Choose("bigrow", 4) == 3 {
			rows.Metadata.Columns = append(rows.Metadata.Columns, col("ks", "t", "blob", datatype.Blob))
			rows.Metadata.ColumnCount = 2
			rows.Data[0] = append(rows.Data[0], genBytes(c, 1<<20))
		}
		if c.Choose("rpaging", 3) == 2 {
			rows.Metadata.PagingState = []byte{1, 2, 3}
		}
		msg, name = rows, "rows"
	case 3:
		msg, name = &message.VoidResult{}, "void"
	case 4:
		msg, name = &message.SchemaChangeResult{ChangeType: primitive.SchemaChangeTypeCreated, Target: primitive.SchemaChangeTargetTable, Keyspace: "ks", Object: "t_" + tok}, "schema_change"
	case 5:
		msg, name = &message.SetKeyspaceResult{Keyspace: "ks_" + tok}, "set_keyspace"
	default:
		// every error code
		cl := primitive.ConsistencyLevelQuorum
		errs := []message.Error{
			&message.ServerError{ErrorMessage: "e " + tok}, &message.ProtocolError{ErrorMessage: "e " + tok}, &message.AuthenticationError{ErrorMessage: "e " + tok},
			&message.Overloaded{ErrorMessage: "e " + tok}, &message.IsBootstrapping{ErrorMessage: "e " + tok}, &message.TruncateError{ErrorMessage: "e " + tok},
			&message.SyntaxError{ErrorMessage: "e " + tok}, &message.Unauthorized{ErrorMessage: "e " + tok}, &message.Invalid{ErrorMessage: "e " + tok},
			&message.ConfigError{ErrorMessage: "e " + tok}, &message.AlreadyExists{ErrorMessage: "e " + tok, Keyspace: "ks", Table: "t"},
			&message.Unavailable{ErrorMessage: "e " + tok, Consistency: cl, Required: 3, Alive: 1},
			&message.ReadTimeout{ErrorMessage: "e " + tok, Consistency: cl, Received: 1, BlockFor: 2, DataPresent: true},
			&message.WriteTimeout{ErrorMessage: "e " + tok, Consistency: cl, Received: 1, BlockFor: 2, WriteType: primitive.WriteTypeSimple},
			&message.FunctionFailure{ErrorMessage: "e " + tok, Keyspace: "ks", Function: "f", Arguments: []string{"int"}},
			&message.Unprepared{ErrorMessage: "e " + tok, Id: []byte("never-seen-id-" + tok)},
		}
		if v >= primitive.ProtocolVersion4 {
			rf := &message.ReadFailure{ErrorMessage: "e " + tok, Consistency: cl, Received: 1, BlockFor: 2, NumFailures: 1, DataPresent: true}
			wf := &message.WriteFailure{ErrorMessage: "e " + tok, Consistency: cl, Received: 1, BlockFor: 2, NumFailures: 1, WriteType: primitive.WriteTypeSimple}
			if v.SupportsReadWriteFailureReasonMap() {
				rf.NumFailures, wf.NumFailures = 0, 0
				rf.FailureReasons = []*primitive.FailureReason{{Endpoint: []byte{10, 0, 0, 9}, Code: primitive.FailureCodeUnknown}}
				wf.FailureReasons = rf.FailureReasons
			}
			errs = append(errs, rf, wf)
		}
		e := errs[c.Choose("errkind", len(errs))]
		msg, name = e, fmt.Sprintf("error_%04x", uint32(e.GetErrorCode()))
	}
	warn := v >= primitive.ProtocolVersion4 && c.Choose("warn", 5) == 4
	trace := c.Choose("rtrace", 6) == 5
	payload := v >= primitive.ProtocolVersion4 && c.Choose("rpayload", 6) == 5
	mod := func(f *frame.Frame) {
		if warn {
			f.SetWarnings([]string{"warning one", "w2 " + tok})
		}
		if trace {
			id := primitive.UUID{1, 2, 3, 4, 5, 6, 7, 8, 9, 10, 11, 12, 13, 14, 15, 16}
			f.SetTracingId(&id)
		}
		if payload {
			f.SetCustomPayload(map[string][]byte{"rk": {9, 9}})
		}
	}
	return msg, mod, name
}
