package world

import (
	"fmt"

	"cqlsim/choice"

	"github.com/datastax/go-cassandra-native-protocol/message"
	"github.com/datastax/go-cassandra-native-protocol/primitive"
)

// ---------------------------------------------------------------- outcome catalogue

// Retry class of an outcome, as the documentation describes it (used by oracles, never read
// from the implementation).
type OutClass int

const (
	ClsFinal         OutClass = iota // delivered to the client whatever the request is
	ClsRetrySameOnce                 // read timeout with enough responses but no data
	ClsRetrySameIdem                 // batch-log write timeout: same host once, if idempotent
	ClsNextOnce                      // unavailable: next host, once
	ClsNextAlways                    // bootstrapping: next host
	ClsNextIdem                      // server error / overloaded / truncate: next host if idempotent
	ClsConnLoss                      // connection dropped with the request outstanding
	ClsWriteTimeout                  // other write timeouts: never retried
	ClsFailure                       // read/write failure: never retried
)

type OutcomeSpec struct {
	Outcome
	Class OutClass
	// Applied: the attempt may have been applied at the backend (C04)
	MaybeApplied bool
}

func errOut(name string, cls OutClass, applied bool, e message.Error) OutcomeSpec {
	return OutcomeSpec{Outcome: ErrOutcome(name, e), Class: cls, MaybeApplied: applied}
}

// DrawOutcome draws one non-OK outcome. v is the protocol version of the backend connection
// (read/write failures do not exist before v4).
func DrawOutcome(c *choice.Stream, v primitive.ProtocolVersion) OutcomeSpec {
	return DrawOutcomeX(c, v, false)
}

// DrawOutcomeX: with exotic, one outcome in eight is an ERROR response that a node newer than the
// proxy's codec library sends and the library refuses to decode (error codes CAS_WRITE_UNKNOWN
// 0x1700 and CDC_WRITE_FAILURE 0x1600, a WRITE_FAILURE with write type CAS). The proxy can only
// pass such a response on; whether the write was applied is unknown.
func DrawOutcomeX(c *choice.Stream, v primitive.ProtocolVersion, exotic bool) OutcomeSpec {
	if exotic && c.Choose("exotic?", 8) == 7 {
		tail := []byte{0, 4, 0, 0, 0, 1, 0, 0, 0, 2} // <cl><received><blockfor>
		switch k := c.Choose("exotickind", 3); {
		case k == 0:
			return OutcomeSpec{Outcome: Outcome{Kind: OutRawError, Name: "undecodable_cas_write_unknown", RawCode: 0x1700, RawTail: tail}, Class: ClsFinal, MaybeApplied: true}
		case k == 1 && v == primitive.ProtocolVersion4:
			return OutcomeSpec{Outcome: Outcome{Kind: OutRawError, Name: "undecodable_write_failure_cas", RawCode: 0x1500, RawTail: append(append([]byte{}, tail...), 0, 0, 0, 1, 0, 3, 'C', 'A', 'S')}, Class: ClsFinal, MaybeApplied: true}
		default:
			return OutcomeSpec{Outcome: Outcome{Kind: OutRawError, Name: "undecodable_cdc_write_failure", RawCode: 0x1600}, Class: ClsFinal, MaybeApplied: true}
		}
	}
	cl := primitive.ConsistencyLevelQuorum
	kinds := 17
	switch c.Choose("outcome", kinds) {
	case 0:
		return errOut("unavailable", ClsNextOnce, false, &message.Unavailable{ErrorMessage: "unavailable", Consistency: cl, Required: int32(2 + c.Choose("req", 3)), Alive: int32(c.Choose("alive", 2))})
	case 1:
		return errOut("overloaded", ClsNextIdem, true, &message.Overloaded{ErrorMessage: "overloaded"})
	case 2:
		return errOut("bootstrapping", ClsNextAlways, false, &message.IsBootstrapping{ErrorMessage: "bootstrapping"})
	case 3:
		return errOut("truncate", ClsNextIdem, true, &message.TruncateError{ErrorMessage: "truncate"})
	case 4:
		return errOut("server", ClsNextIdem, true, &message.ServerError{ErrorMessage: "server error"})
	case 5:
		// read timeout, the retryable shape
		bf := int32(1 + c.Choose("bf", 3))
		return errOut("read_timeout_retry", ClsRetrySameOnce, false, &message.ReadTimeout{ErrorMessage: "rt", Consistency: cl, Received: bf + int32(c.Choose("extra", 2)), BlockFor: bf, DataPresent: false})
	case 6:
		// read timeout, non-retryable shapes
		bf := int32(1 + c.Choose("bf", 3))
		if c.Choose("rtshape", 2) == 0 {
			return errOut("read_timeout_data", ClsFinal, false, &message.ReadTimeout{ErrorMessage: "rt", Consistency: cl, Received: bf, BlockFor: bf, DataPresent: true})
		}
		return errOut("read_timeout_few", ClsFinal, false, &message.ReadTimeout{ErrorMessage: "rt", Consistency: cl, Received: bf - 1, BlockFor: bf, DataPresent: c.Choose("dp", 2) == 1})
	case 7:
		return errOut("write_timeout_batchlog", ClsRetrySameIdem, true, &message.WriteTimeout{ErrorMessage: "wt", Consistency: cl, Received: 0, BlockFor: 1, WriteType: primitive.WriteTypeBatchLog})
	case 8:
		wts := []primitive.WriteType{primitive.WriteTypeSimple, primitive.WriteTypeBatch, primitive.WriteTypeUnloggedBatch, primitive.WriteTypeCounter, primitive.WriteTypeCas}
		wt := wts[c.Choose("wt", len(wts))]
		return errOut("write_timeout_"+string(wt), ClsWriteTimeout, true, &message.WriteTimeout{ErrorMessage: "wt", Consistency: cl, Received: 1, BlockFor: 2, WriteType: wt})
	case 9:
		if v >= primitive.ProtocolVersion4 {
			m := &message.ReadFailure{ErrorMessage: "rf", Consistency: cl, Received: 1, BlockFor: 2, NumFailures: 1}
			if v.SupportsReadWriteFailureReasonMap() {
				m.NumFailures = 0
				m.FailureReasons = []*primitive.FailureReason{{Endpoint: []byte{10, 0, 0, 9}, Code: primitive.FailureCodeUnknown}}
			}
			return errOut("read_failure", ClsFailure, true, m)
		}
		return errOut("server", ClsNextIdem, true, &message.ServerError{ErrorMessage: "server error"})
	case 10:
		if v >= primitive.ProtocolVersion4 {
			m := &message.WriteFailure{ErrorMessage: "wf", Consistency: cl, Received: 1, BlockFor: 2, NumFailures: 1, WriteType: primitive.WriteTypeSimple}
			if v.SupportsReadWriteFailureReasonMap() {
				m.NumFailures = 0
				m.FailureReasons = []*primitive.FailureReason{{Endpoint: []byte{10, 0, 0, 9}, Code: primitive.FailureCodeUnknown}}
			}
			return errOut("write_failure", ClsFailure, true, m)
		}
		return errOut("overloaded", ClsNextIdem, true, &message.Overloaded{ErrorMessage: "overloaded"})
	case 11:
		return errOut("invalid", ClsFinal, false, &message.Invalid{ErrorMessage: "invalid query"})
	case 12:
		return errOut("syntax", ClsFinal, false, &message.SyntaxError{ErrorMessage: "syntax"})
	case 13:
		return errOut("unauthorized", ClsFinal, false, &message.Unauthorized{ErrorMessage: "unauthorized"})
	case 14:
		return errOut("already_exists", ClsFinal, false, &message.AlreadyExists{ErrorMessage: "exists", Keyspace: "ks", Table: "t"})
	case 15:
		return OutcomeSpec{Outcome: Outcome{Kind: OutSilentDrop, Name: "silent_drop"}, Class: ClsConnLoss, MaybeApplied: true}
	default:
		if c.Choose("hang?", 5) == 4 {
			return OutcomeSpec{Outcome: Outcome{Kind: OutHang, Name: "hang"}, Class: ClsConnLoss, MaybeApplied: true}
		}
		return OutcomeSpec{Outcome: Outcome{Kind: OutDropNow, Name: "drop_now"}, Class: ClsConnLoss, MaybeApplied: true}
	}
}

// ---------------------------------------------------------------- statements with ground truth

type Stmt struct {
	Text       string
	Idempotent bool // ground truth by construction (documented rules)
	Select     bool
	Marker     bool // contains one bind marker that takes the token value
}

// DrawStmt produces a data statement on the given table with lit in the key position (a
// quoted token literal or a bind marker) together with its documented idempotency.
func DrawStmt(c *choice.Stream, lit, table string) Stmt { return drawStmt(c, lit, table, false) }

// DrawMutation is DrawStmt without SELECT (batch children).
func DrawMutation(c *choice.Stream, lit, table string) Stmt { return drawStmt(c, lit, table, true) }

func drawStmt(c *choice.Stream, lit, table string, noSelect bool) Stmt {
	type tpl struct {
		f    string
		idem bool
		sel  bool
	}
	tpls := []tpl{
		{"SELECT * FROM %[2]s WHERE k = %[1]s", true, true},
		{"INSERT INTO %[2]s (k, v) VALUES (%[1]s, 1)", true, false},
		{"UPDATE %[2]s SET v = 2 WHERE k = %[1]s", true, false},
		{"DELETE FROM %[2]s WHERE k = %[1]s", true, false},
		{"UPDATE %[2]s SET c = c + 1 WHERE k = %[1]s", false, false},
		{"INSERT INTO %[2]s (k, v) VALUES (%[1]s, now())", false, false},
		{"INSERT INTO %[2]s (k, v) VALUES (%[1]s, uuid())", false, false},
		{"UPDATE %[2]s SET l = l + [1] WHERE k = %[1]s", false, false},
		{"INSERT INTO %[2]s (k, v) VALUES (%[1]s, 1) IF NOT EXISTS", false, false},
		{"UPDATE %[2]s SET v = 3 WHERE k = %[1]s IF v = 2", false, false},
		{"DELETE l[1] FROM %[2]s WHERE k = %[1]s", false, false},
		// the same kinds of operation with the operand bound at execution time
		{"DELETE l[?] FROM %[2]s WHERE k = %[1]s", false, false},
		{"UPDATE %[2]s SET l = l + ? WHERE k = %[1]s", false, false},
		{"UPDATE %[2]s SET c = c + ? WHERE k = %[1]s", false, false},
	}
	var t tpl
	if noSelect {
		t = tpls[1+c.Choose("stmt-nosel", len(tpls)-1)]
	} else {
		t = tpls[c.Choose("stmt", len(tpls))]
	}
	return Stmt{Text: fmt.Sprintf(t.f, lit, table), Idempotent: t.idem, Select: t.sel, Marker: lit == "?"}
}

func (w *World) NewToken() string {
	w.tokenCtr++
	return fmt.Sprintf("tok%dx", w.tokenCtr)
}

func QueryMsg(text string, cl primitive.ConsistencyLevel) *message.Query {
	return &message.Query{Query: text, Options: &message.QueryOptions{Consistency: cl}}
}

func ExecMsg(id []byte, resultMetaID []byte, tok string, cl primitive.ConsistencyLevel) *message.Execute {
	return &message.Execute{QueryId: id, ResultMetadataId: resultMetaID, Options: &message.QueryOptions{
		Consistency:      cl,
		PositionalValues: []*primitive.Value{primitive.NewValue([]byte(tok))},
	}}
}

// Variant rewrites a statement without changing its meaning: keyword case, whitespace,
// newlines and a trailing semicolon (string literals are left alone).
func Variant(c *choice.Stream, text string) string {
	v := c.Choose("variant", 6)
	if v == 0 {
		return text
	}
	var sb []byte
	inStr := false
	for i := 0; i < len(text); i++ {
		ch := text[i]
		if ch == '\'' {
			inStr = !inStr
		}
		if inStr {
			sb = append(sb, ch)
			continue
		}
		switch {
		case v == 1 && ch >= 'A' && ch <= 'Z':
			sb = append(sb, ch+32)
		case v == 2 && ch == ' ':
			sb = append(sb, ' ', ' ')
		case v == 3 && ch == ' ':
			sb = append(sb, '\n')
		case v == 4 && ch == ' ':
			sb = append(sb, '\t')
		default:
			sb = append(sb, ch)
		}
	}
	out := string(sb)
	if v == 5 {
		out += ";"
	}
	if v == 2 {
		out = "  " + out + "  "
	}
	return out
}
