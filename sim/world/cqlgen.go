package world

import (
	"fmt"
	"strings"

	"cqlsim/choice"
)

// CQL grammar generator with ground truth by construction (the documented idempotency rules):
// a statement is built either without any non-idempotent construct, or with exactly one
// "poison" placed somewhere in an otherwise idempotent statement: a now()/uuid() call at some
// depth of a term, a counter update, a list append/prepend/remove, a delete by index, a
// lightweight-transaction IF clause, an ambiguous `col = col ± bind-marker/function`, a counter
// batch, or a child of a batch carrying one of those.

type CQL struct {
	Text       string
	Idempotent bool
	Why        string // which construct makes it non-idempotent
}

type cqlGen struct {
	c      *choice.Stream
	poison string // "" or the kind still to be placed
	placed bool
}

func (g *cqlGen) pick(n int) int { return g.c.Choose("cql", n) }

func (g *cqlGen) literal() string {
	lits := []string{"1", "-42", "3.14", "'text'", "'it''s'", "true", "false", "null", "0xCAFE", "123e4567-e89b-12d3-a456-426614174000", "NaN", "Infinity", "1h30m", "?", ":named"}
	return lits[g.pick(len(lits))]
}

func (g *cqlGen) nonIdemFunc() string {
	fns := []string{"now()", "uuid()", "NOW()", "Uuid()", "now( )", "uuid ()", "system.now()", "toTimestamp(now())", "toDate(NOW())", "minTimeuuid(now())"}
	return fns[g.pick(len(fns))]
}

// term builds a value term; if the generator still has a "func" poison to place and want is
// true, the poison goes somewhere inside this term.
func (g *cqlGen) term(depth int, want bool) string {
	if want && (depth == 0 || g.pick(3) == 0) {
		g.placed = true
		return g.nonIdemFunc()
	}
	if depth == 0 {
		return g.literal()
	}
	sub := func(w bool) string { return g.term(depth-1, w) }
	k := g.pick(8)
	pos := g.pick(2) // which child gets the poison
	w0, w1 := want && pos == 0, want && pos == 1
	switch k {
	case 0:
		return "[" + sub(w0) + ", " + sub(w1) + "]"
	case 1:
		return "{" + sub(w0) + ", " + sub(w1) + "}"
	case 2:
		return "{" + sub(w0) + ": " + sub(w1) + "}"
	case 3:
		return "(" + sub(w0) + ", " + sub(w1) + ", 7)"
	case 4:
		return "{field1: " + sub(w0) + ", field2: " + sub(w1) + "}"
	case 5:
		return "(" + []string{"int", "text", "timestamp", "list<int>", "frozen<map<text, int>>"}[g.pick(5)] + ") " + sub(want)
	case 6:
		return []string{"toTimestamp", "ks.myfunc", "token", "blobAsInt", "fromJson"}[g.pick(5)] + "(" + sub(w0) + ", " + sub(w1) + ")"
	default:
		if want {
			return sub(true)
		}
		return g.literal()
	}
}

func (g *cqlGen) table() string {
	return []string{"ks.t", "t", `"Ks"."T"`, `ks."Tbl"`, "ks.tbl_1"}[g.pick(5)]
}

func (g *cqlGen) using() string {
	return []string{"", "", " USING TTL 3600", " USING TIMESTAMP 1234567", " USING TTL 10 AND TIMESTAMP 99"}[g.pick(5)]
}

func (g *cqlGen) where(tok string, wantFunc bool) string {
	w := " WHERE k = '" + tok + "'"
	switch g.pick(5) {
	case 1:
		w += " AND c IN (1, 2, 3)"
	case 2:
		w += " AND (a, b) = (1, 'x')"
	case 3:
		w += " AND c > " + g.term(1, false)
	}
	if wantFunc {
		w += " AND ts = " + g.term(1, true)
	}
	return w
}

func (g *cqlGen) ifClause() string {
	return []string{" IF EXISTS", " IF v = 1", " IF v = 1 AND w > 'a'", " IF l[0] = 2", " IF v IN (1, 2)", " if exists"}[g.pick(6)]
}

// mutation builds one INSERT/UPDATE/DELETE carrying tok; g.poison selects the construct.
func (g *cqlGen) mutation(tok string) string {
	kind := g.pick(3)
	p := g.poison
	switch p {
	case "counter", "list", "ambiguous":
		kind = 1
	case "delete-index":
		kind = 2
	}
	funcInWhere := p == "func" && g.pick(6) == 5
	funcHere := p == "func" && !funcInWhere
	switch kind {
	case 0: // INSERT
		if (p == "" || p == "lwt") && g.pick(4) == 3 {
			// the JSON form, with its optional DEFAULT clause between the document and the condition
			s := "INSERT INTO " + g.table() + " JSON '{\"k\": \"" + tok + "\", \"c0\": 1}'" + []string{"", " DEFAULT NULL", " DEFAULT UNSET", " default unset"}[g.pick(4)]
			if p == "lwt" {
				s += []string{" IF NOT EXISTS", " if not exists"}[g.pick(2)]
				g.placed = true
			}
			return s + g.using()
		}
		n := 1 + g.pick(3)
		cols, vals := []string{"k"}, []string{"'" + tok + "'"}
		pos := g.pick(n)
		for i := 0; i < n; i++ {
			cols = append(cols, fmt.Sprintf("c%d", i))
			vals = append(vals, g.term(g.pick(3), funcHere && i == pos))
		}
		s := "INSERT INTO " + g.table() + " (" + strings.Join(cols, ", ") + ") VALUES (" + strings.Join(vals, ", ") + ")"
		if funcInWhere { // no WHERE in INSERT: place it in a value after all
			s = "INSERT INTO " + g.table() + " (k, c0) VALUES ('" + tok + "', " + g.term(1, true) + ")"
		}
		if p == "lwt" {
			s += []string{" IF NOT EXISTS", " if not exists"}[g.pick(2)]
			g.placed = true
		}
		return s + g.using()
	case 1: // UPDATE
		var sets []string
		n := 1 + g.pick(3)
		pos := g.pick(n)
		for i := 0; i < n; i++ {
			col := fmt.Sprintf("c%d", i)
			if i == pos {
				switch p {
				case "counter":
					sets = append(sets, []string{"cnt = cnt + 1", "cnt = cnt - 3", "cnt += 1", "cnt -= 2", "cnt = cnt + 10000000000"}[g.pick(5)])
					g.placed = true
					continue
				case "list":
					sets = append(sets, []string{"l = l + [1]", "l = [1, 2] + l", "l = l - [1]", "l += [7]", "l -= ['x']", "l = l + ['a', 'b']"}[g.pick(6)])
					g.placed = true
					continue
				case "ambiguous":
					sets = append(sets, []string{"v = v + ?", "v = v - :delta", "v = v + somefunc(1)", "v += ?", "v -= :d", "v = ? + v"}[g.pick(6)])
					g.placed = true
					continue
				}
			}
			switch g.pick(5) {
			case 0:
				sets = append(sets, col+" = "+col+" + {1, 2}") // set addition: idempotent
			case 1:
				sets = append(sets, col+" = "+col+" + {'a': 1}") // map addition: idempotent
			case 2:
				sets = append(sets, col+"['key'] = "+g.term(1, funcHere && i == pos))
			case 3:
				sets = append(sets, col+".field = "+g.term(1, funcHere && i == pos))
			default:
				sets = append(sets, col+" = "+g.term(g.pick(3), funcHere && i == pos))
			}
		}
		s := "UPDATE " + g.table() + g.using() + " SET " + strings.Join(sets, ", ") + g.where(tok, funcInWhere)
		if p == "lwt" {
			s += g.ifClause()
			g.placed = true
		}
		return s
	default: // DELETE
		cols := []string{"", "", " v", " v, w", " m['key']"}[g.pick(5)]
		if p == "delete-index" {
			cols = []string{" l[1]", " l[0], v", " v, l[2]"}[g.pick(3)]
			g.placed = true
		}
		s := "DELETE" + cols + " FROM " + g.table() + g.using() + g.where(tok, p == "func")
		if p == "lwt" {
			s += g.ifClause()
			g.placed = true
		}
		return s
	}
}

var cqlPoisons = []string{"func", "func", "counter", "list", "delete-index", "lwt", "ambiguous", "counter-batch", "batch-child", "junk"}

// GenCQL draws a data statement carrying tok. nonIdempotent selects the class.
func GenCQL(c *choice.Stream, tok string, nonIdempotent bool) CQL {
	g := &cqlGen{c: c}
	if !nonIdempotent {
		if g.pick(6) == 0 {
			var ch []string
			for i := 0; i < 1+g.pick(3); i++ {
				ch = append(ch, g.mutation(tok))
			}
			return CQL{Text: "BEGIN " + []string{"", "UNLOGGED "}[g.pick(2)] + "BATCH " + strings.Join(ch, "; ") + "; APPLY BATCH", Idempotent: true}
		}
		return CQL{Text: g.mutation(tok), Idempotent: true}
	}
	g.poison = cqlPoisons[g.pick(len(cqlPoisons))]
	switch g.poison {
	case "junk":
		// statements that are not DML (malformed DML is left out: no backend would apply it)
		junk := []string{"FROBNICATE " + tok, "'" + tok + "'", "TRUNCATE ks.t_" + tok, "CREATE TABLE ks.t_" + tok + " (k int PRIMARY KEY)", "ALTER TABLE ks.t_" + tok + " ADD c int", "DROP TABLE ks.t_" + tok, "GRANT SELECT ON ks.t_" + tok + " TO bob"}
		return CQL{Text: junk[g.pick(len(junk))], Why: "not a statement the classifier can prove idempotent"}
	case "counter-batch":
		return CQL{Text: "BEGIN COUNTER BATCH UPDATE ks.cnt SET c = c + 1 WHERE k = '" + tok + "'; APPLY BATCH", Why: "counter batch"}
	case "batch-child":
		inner := &cqlGen{c: c, poison: []string{"func", "counter", "list", "lwt", "ambiguous", "delete-index"}[g.pick(6)]}
		bad := inner.mutation(tok)
		if !inner.placed {
			bad = canonicalPoison(inner, tok)
		}
		clean := &cqlGen{c: c}
		ch := []string{clean.mutation(tok), bad}
		if g.pick(2) == 0 {
			ch[0], ch[1] = ch[1], ch[0]
		}
		if g.pick(2) == 0 {
			ch = append(ch, clean.mutation(tok))
		}
		return CQL{Text: "BEGIN " + []string{"", "UNLOGGED ", "unlogged "}[g.pick(3)] + "BATCH " + strings.Join(ch, "; ") + "; APPLY BATCH", Why: "batch child with " + inner.poison}
	}
	text := g.mutation(tok)
	if !g.placed {
		text = canonicalPoison(g, tok)
	}
	return CQL{Text: text, Why: g.poison}
}

// canonicalPoison is used when the drawn statement shape had no slot for the construct.
func canonicalPoison(g *cqlGen, tok string) string {
	switch g.poison {
	case "func":
		return "INSERT INTO ks.t (k, v) VALUES ('" + tok + "', " + g.nonIdemFunc() + ")"
	case "counter":
		return "UPDATE ks.cnt SET c = c + 1 WHERE k = '" + tok + "'"
	case "list":
		return "UPDATE ks.t SET l = l + [1] WHERE k = '" + tok + "'"
	case "delete-index":
		return "DELETE l[1] FROM ks.t WHERE k = '" + tok + "'"
	case "ambiguous":
		return "UPDATE ks.t SET v = v + ? WHERE k = '" + tok + "'"
	}
	return "UPDATE ks.t SET v = 1 WHERE k = '" + tok + "' IF EXISTS"
}
