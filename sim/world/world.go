// Package world is the simulated environment of the proxy: fake Cassandra nodes, fake client
// drivers, the scheduler loop that owns every interleaving, delivery and fault, and the
// event log. Fake peers run inline on the scheduler goroutine.
package world

import (
	"context"
	"crypto/tls"
	"fmt"
	"hash/fnv"
	"net"
	"os"
	"sort"
	"strings"
	"time"
	"unsafe"

	"cqlsim/choice"
	"cqlsim/simnet"
	"cqlsim/simrt"

	"github.com/datastax/cql-proxy/proxy"
	"github.com/datastax/cql-proxy/proxycore"
	"github.com/datastax/go-cassandra-native-protocol/frame"
	"github.com/datastax/go-cassandra-native-protocol/message"
	"github.com/datastax/go-cassandra-native-protocol/primitive"
	"go.uber.org/zap"
	"go.uber.org/zap/zapcore"
)

type Violation struct {
	Oracle    string `json:"oracle"`
	Signature string `json:"signature"`
	Detail    string `json:"detail"`
	Step      int64  `json:"step"`
	SimTime   string `json:"sim_time"`
}

type BadFrame struct {
	Conn *BackendConn
	Raw  []byte
	Err  string
}

// Config holds the per-run ("swarm") parameters of the world.
type Config struct {
	Hosts          int
	NumConns       int
	DSE            bool
	BackendMax     primitive.ProtocolVersion
	ProxyVersion   primitive.ProtocolVersion
	ProxyMax       primitive.ProtocolVersion
	Heartbeat      time.Duration
	IdleTimeout    time.Duration
	ConnectTimeout time.Duration
	ReconnBase     time.Duration
	ReconnMax      time.Duration
	// scheduling weights of the action categories
	WTask, WNet, WPeer, WWork, WClock int
	Sticky                            int // extra weight of "keep running the same task" (0 = uniform)
	FragProb                          int // per-mille probability that a delivery to the SUT is fragmented
	MaxSteps                          int64
	KeepLog                           bool
	ProxyLog                          bool // route the proxy's zap output into the event log
	IdempotentGraph                   bool
	RPCAddr                           string
	DC                                string
	Peers                             []proxy.PeerConfig
	Tokens                            []string
	PreparedCache                     proxycore.PreparedCache
	PCT                               int         // >0: priority-based task choice with that many priority change points (PCT, Burckhardt et al. 2010)
	ClientTLS                         *tls.Config // if set, the proxy's client-facing listener is a TLS listener with this configuration
	AuthDSE                           bool        // ... the way a DSE node does it (mechanism name, challenge, credentials)
	AuthUser, AuthPass                string      // if set, the backend nodes demand password authentication and the proxy is configured with these credentials
	MaxStreams                        int16       // tuning knob: stream ids per backend connection (0 = the shipped 2048)
	BigRowsPerMille                   int         // share of ROWS results that carry padding rows (3-70 KB) behind the token row
	MaxMessages                       int         // tuning knob: length of a connection's write queue (0 = the shipped 1024)
	TweakProxy                        func(*proxy.Config)
}

func DefaultConfig() Config {
	return Config{
		Hosts: 3, NumConns: 1, BackendMax: primitive.ProtocolVersion4,
		ProxyVersion: primitive.ProtocolVersion4, ProxyMax: primitive.ProtocolVersion4,
		Heartbeat: 30 * time.Second, IdleTimeout: 60 * time.Second, ConnectTimeout: 10 * time.Second,
		ReconnBase: 2 * time.Second, ReconnMax: 30 * time.Second,
		WTask: 8, WNet: 4, WPeer: 4, WWork: 2, WClock: 0, Sticky: 0, FragProb: 100, MaxSteps: 400000,
	}
}

type heldReply struct {
	conn   *BackendConn
	raw    []byte
	att    *Attempt
	desc   string
	drop   bool
	stream int16
}

type World struct {
	Cfg Config
	S   *simrt.Sched
	N   *simnet.Net
	C   *choice.Stream

	Nodes   []*Node
	Clients []*Client
	Proxies []*ProxyInst

	Script       map[string][]Outcome
	scriptPos    map[string]int
	Attempts     map[string][]*Attempt
	AttemptOrder []*Attempt
	held         []*heldReply

	Violations          []Violation
	BadFrames           []BadFrame
	UnexpectedAtBackend []string
	stop                bool

	seq      uint64
	tokenCtr int
	Iter     int64
	start    time.Time
	connID   int
	lastTask *simrt.Task
	pctPrio  []int // PCT mode: priority by task id (0 = not yet assigned)
	pctAt    []int // PCT mode: task-step numbers at which the running task drops to the lowest priority
	pctSteps int
	pctRun   int // consecutive steps of the same task (fairness valve)
	winSteps map[*simrt.Task]int
	winCount int
	spinTask *simrt.Task
	spinRuns int

	Log     []string
	logHash uint64
	Stats   map[string]int
	// interleaving measures
	switchHash uint64
	Switches   int64
	edges      map[uint64]struct{}

	// hooks for scenarios / oracles
	Workload              func() int  // number of enabled workload operations
	DoWork                func(i int) // perform one
	OnReply               func(*ClientReq, *ClientReply)
	OnClientEvent         func(*Client, *frame.Frame)
	ResultFor             func(*Attempt) message.Message
	ReplyMod              func(*Attempt, *frame.Frame)
	OnAttempt             func(*Attempt)
	OnStep                func() // online invariants, evaluated after every settle
	DialPolicy            func(n *Node) simnet.DialKind
	FaultActs             func() int // number of enabled fault actions (scenario-owned)
	DoFault               func(i int)
	ControlConns          []*BackendConn
	Services              map[string]func(*simnet.PeerEnd) // address -> service run as a sim task per connection
	DialAttempts          map[string][]time.Duration       // every SUT dial (accepted or not), by address
	Truncated             bool                             // the run used up its step budget (no verdict on what had not happened yet)
	ExoticBodies          map[string]string                // bodies of ERROR responses sent on purpose that the reference codec cannot decode -> outcome name
	HostileUnpreparedID   []byte                           // id of a statement in the proxy's prepared cache (hostile UNPREPARED replies)
	ClockOn               bool                             // early clock advances allowed (off during boot and drain)
	ScriptBeatsUnprepared bool                             // a scripted outcome is applied even to EXECUTE/BATCH of ids the node does not know (hostile backends, C17)
	ClockBudget           int                              // number of early clock advances left in this run
}

type ProxyInst struct {
	ID       int
	P        *proxy.Proxy
	Cancel   context.CancelFunc
	BootErr  error
	Booted   bool
	Listener *simnet.Listener
	Bind     string
	ServeErr error
	Served   bool
	sync     int
}

// BootSync orders the caller after the proxy's start-up for the race detector (the harness
// observes start-up through the scheduler, whose hand-offs are hidden from it).
func (pi *ProxyInst) BootSync() { simrt.RaceAcquire(unsafe.Pointer(&pi.sync)) }

func New(cfg Config, s *simrt.Sched, n *simnet.Net, c *choice.Stream) *World {
	w := &World{Cfg: cfg, S: s, N: n, C: c,
		Script: map[string][]Outcome{}, scriptPos: map[string]int{}, Attempts: map[string][]*Attempt{},
		start: time.Now(), Stats: map[string]int{}, edges: map[uint64]struct{}{},
		logHash: 1469598103934665603, switchHash: 1469598103934665603}
	for i := 0; i < cfg.Hosts; i++ {
		w.AddNode(true)
	}
	return w
}

func (w *World) Now() time.Duration    { return time.Since(w.start) }
func (w *World) nextSeq() uint64       { w.seq++; return w.seq }
func (w *World) nextConnID() int       { w.connID++; return w.connID }
func (w *World) Stat(k string)         { w.Stats[k]++ }
func (w *World) StatN(k string, n int) { w.Stats[k] += n }

func (w *World) Logf(format string, a ...interface{}) {
	s := fmt.Sprintf(format, a...)
	line := fmt.Sprintf("[%6d %12s] %s", w.S.Steps, w.Now().Truncate(time.Microsecond), s)
	h := fnv.New64a()
	h.Write([]byte(line))
	w.logHash = (w.logHash ^ h.Sum64()) * 1099511628211
	if w.Cfg.KeepLog {
		w.Log = append(w.Log, line)
	}
}

func (w *World) LogHash() uint64 { return w.logHash }

func (w *World) Violate(oracle, sig, detail string) {
	w.Violations = append(w.Violations, Violation{Oracle: oracle, Signature: sig, Detail: detail,
		Step: w.S.Steps, SimTime: w.Now().String()})
	// the detail may hold a goroutine stack (addresses, goroutine numbers): it stays out of the
	// event log, whose hash must be a function of the seed alone
	w.Logf("VIOLATION[%s] %s: %s", oracle, sig, firstLine(detail))
	w.stop = true
}

func (w *World) Stopped() bool { return w.stop }

// truncate ends a run that used up its step budget: what has not happened by then (a reply, a
// reconnect) says nothing about the property, so the scenario gives no verdict on it (a task that
// spins without progress is the livelock detector's business and is reported before this point).
func (w *World) truncate() {
	if !w.stop {
		w.Truncated = true
		w.Stat("run.truncated_by_step_budget")
		w.Logf("run truncated: step budget of %d used up", w.Cfg.MaxSteps)
		w.stop = true
	}
}

// ---------------------------------------------------------------- cluster

func (w *World) AddNode(inCluster bool) *Node {
	i := len(w.Nodes) + 1
	ip := net.IPv4(10, 0, 0, byte(i))
	var hid primitive.UUID
	copy(hid[:], []byte(fmt.Sprintf("host-id-%08d", i)))
	hid[6] = (hid[6] & 0x0f) | 0x40
	hid[8] = (hid[8] & 0x3f) | 0x80
	n := &Node{w: w, Name: fmt.Sprintf("n%d", i), IP: ip, Addr: net.JoinHostPort(ip.String(), "9042"), DC: "dc1",
		HostID: hid, Up: true, InCluster: inCluster, MaxVersion: w.Cfg.BackendMax, DSE: w.Cfg.DSE,
		Prepared: map[string]string{}, AuthUser: w.Cfg.AuthUser, AuthPass: w.Cfg.AuthPass, AuthDSE: w.Cfg.AuthDSE}
	w.Nodes = append(w.Nodes, n)
	return n
}

func (w *World) NodeByAddr(addr string) *Node {
	for _, n := range w.Nodes {
		if n.Addr == addr {
			return n
		}
	}
	return nil
}

// resolveDial decides a pending SUT dial (scheduler goroutine).
func (w *World) resolveDial(d *simnet.PendingDial) {
	if w.DialAttempts == nil {
		w.DialAttempts = map[string][]time.Duration{}
	}
	w.DialAttempts[d.Addr] = append(w.DialAttempts[d.Addr], w.Now())
	if svc := w.Services[d.Addr]; svc != nil {
		// a service run by a harness task over a blocking byte stream (TLS servers)
		pe := &simnet.PeerEnd{}
		l := w.N.ResolveDial(d, simnet.DialOutcome{Kind: simnet.DialAccept, Peer: pe, Tag: "svc:" + d.Addr})
		if l != nil {
			pe.L = l
			w.Stat("dial.service")
			w.Logf("dial %s: service connection", d.Addr)
			simrt.Go("service:"+d.Addr, func() { svc(pe) })
		}
		return
	}
	n := w.NodeByAddr(d.Addr)
	if n == nil {
		w.Logf("dial %s: no such node -> refused", d.Addr)
		w.Stat("dial.refused")
		w.N.ResolveDial(d, simnet.DialOutcome{Kind: simnet.DialRefuse})
		return
	}
	kind := simnet.DialAccept
	if !n.Up || n.RefuseNew {
		kind = simnet.DialRefuse
	} else if n.Blackhole {
		kind = simnet.DialBlackhole
	}
	if w.DialPolicy != nil && kind == simnet.DialAccept {
		kind = w.DialPolicy(n)
	}
	switch kind {
	case simnet.DialRefuse:
		w.Stat("dial.refused")
		w.Logf("dial %s: refused", n)
		w.N.ResolveDial(d, simnet.DialOutcome{Kind: kind})
	case simnet.DialBlackhole:
		w.Stat("dial.blackhole")
		w.Logf("dial %s: black-holed", n)
		w.N.ResolveDial(d, simnet.DialOutcome{Kind: kind})
	default:
		w.Stat("dial.accepted")
		lb := &lazyBackend{n: n}
		l := w.N.ResolveDial(d, simnet.DialOutcome{Kind: kind, Peer: lb, Tag: n.Name})
		if l != nil {
			lb.get(l)
		}
	}
}

// lazyBackend creates the BackendConn on first contact (the dial hook runs before the link exists).
type lazyBackend struct {
	n *Node
	c *BackendConn
}

func (lb *lazyBackend) get(l *simnet.Link) *BackendConn {
	if lb.c == nil {
		lb.c = lb.n.newConn(l)
		l.User = lb.c
		lb.n.w.Logf("backend %s: accepted connection", lb.c)
	}
	return lb.c
}
func (lb *lazyBackend) OnData(l *simnet.Link, b []byte) { lb.get(l).OnData(l, b) }
func (lb *lazyBackend) OnClose(l *simnet.Link)          { lb.get(l).OnClose(l) }

func (w *World) connGone(c *BackendConn) {
	// replies held for a dead connection are discarded; their attempts count as dropped
	kept := w.held[:0]
	for _, h := range w.held {
		if h.conn == c {
			if h.att != nil && !h.att.Replied {
				h.att.Dropped = true
			}
			continue
		}
		kept = append(kept, h)
	}
	w.held = kept
	consumed := c.Link.ConsumedBySUT()
	for _, a := range w.AttemptOrder {
		if a.Conn != c {
			continue
		}
		if !a.Replied {
			a.Dropped = true
		} else if a.ReplyEnd > consumed && !a.lostChecked {
			// the reply was written but the proxy never read it: from its side this is a lost connection
			a.Dropped, a.ReplyLost = true, true
		}
		a.lostChecked = true
	}
	for i, cc := range w.ControlConns {
		if cc == c {
			w.ControlConns = append(w.ControlConns[:i], w.ControlConns[i+1:]...)
			break
		}
	}
}

func (w *World) controlRegistered(c *BackendConn) {
	w.ControlConns = append(w.ControlConns, c)
}

func (w *World) hold(h *heldReply) { w.held = append(w.held, h) }

func (w *World) HeldCount() int { return len(w.held) }

func (w *World) release(i int) {
	h := w.held[i]
	w.held = append(w.held[:i], w.held[i+1:]...)
	if h.conn.Closed {
		return
	}
	if h.drop {
		if h.att != nil {
			h.att.Dropped = true
		}
		h.conn.Reset(h.desc)
		return
	}
	if h.att != nil {
		h.att.Replied = true
		h.att.ReplyRaw = h.raw
		delete(h.conn.Outstanding, h.att.Stream)
	}
	w.Logf("backend %s: -> %s (stream %d)", h.conn, h.desc, h.stream)
	h.conn.Link.PeerWrite(h.raw)
	if h.att != nil {
		h.att.ReplyEnd = h.conn.Link.WrittenToSUT()
	}
}

func (w *World) recordAttempt(c *BackendConn, raw []byte, frm *frame.Frame, tok string) *Attempt {
	a := &Attempt{Token: tok, Node: c.Node, Conn: c, Stream: frm.Header.StreamId, Seq: w.nextSeq(), At: w.Now(),
		Raw: raw, OpCode: frm.Header.OpCode, Keyspace: c.Keyspace, Version: frm.Header.Version,
		Compression: c.Compression, Msg: frm.Body.Message}
	if c.Outstanding[a.Stream] {
		w.Violate("backend-stream", "backend-stream-reused-while-outstanding",
			fmt.Sprintf("proxy sent a request on backend stream %d of %s while an earlier request on that stream is unanswered", a.Stream, c))
	}
	c.Outstanding[a.Stream] = true
	if n := len(c.Outstanding); n > w.Stats["backend.streams_high_water"] {
		w.Stats["backend.streams_high_water"] = n
	}
	w.Attempts[tok] = append(w.Attempts[tok], a)
	w.AttemptOrder = append(w.AttemptOrder, a)
	w.Logf("backend %s: <- %s tok=%s stream=%d attempt#%d", c, a.OpCode, tok, a.Stream, len(w.Attempts[tok]))
	if w.OnAttempt != nil {
		w.OnAttempt(a)
	}
	return a
}

func (w *World) nextOutcome(tok string, a *Attempt) Outcome {
	sc := w.Script[tok]
	i := w.scriptPos[tok]
	w.scriptPos[tok] = i + 1
	if i < len(sc) {
		return sc[i]
	}
	return OK
}

// EmitEvent sends an EVENT frame on every registered (control) connection.
func (w *World) EmitEvent(msg message.Message) int {
	n := 0
	for _, c := range w.ControlConns {
		if c.Closed || !c.Registered {
			continue
		}
		frm := frame.NewFrame(c.Version, -1, msg)
		c.Link.PeerWrite(encodeFrame(c.Compression, frm))
		n++
	}
	w.Logf("backend: EVENT %v on %d control connection(s)", msg, n)
	return n
}

// ---------------------------------------------------------------- proxy under test

type logSink struct{ w *World }

func (s logSink) Write(p []byte) (int, error) {
	s.w.Logf("proxy-log: %s", strings.TrimRight(string(p), "\n"))
	return len(p), nil
}
func (s logSink) Sync() error { return nil }

func (w *World) proxyLogger() *zap.Logger {
	if !w.Cfg.ProxyLog {
		return zap.NewNop()
	}
	enc := zapcore.NewConsoleEncoder(zapcore.EncoderConfig{MessageKey: "m", LevelKey: "l", EncodeLevel: zapcore.LowercaseLevelEncoder})
	return zap.New(zapcore.NewCore(enc, logSink{w}, zapcore.DebugLevel))
}

// StartProxy launches a real proxy instance as a sim task: NewProxy + Connect + Listen + Serve.
func (w *World) StartProxy(bind string, contact []string, tweak func(*proxy.Config)) *ProxyInst {
	pi := &ProxyInst{ID: len(w.Proxies), Bind: bind}
	w.Proxies = append(w.Proxies, pi)
	proxycore.SimMaxStreams = proxycore.MaxStreams
	if w.Cfg.MaxStreams > 0 {
		proxycore.SimMaxStreams = w.Cfg.MaxStreams
	}
	proxycore.SimMaxMessages = proxycore.MaxMessages
	if w.Cfg.MaxMessages > 0 {
		proxycore.SimMaxMessages = w.Cfg.MaxMessages
	}
	ctx, cancel := context.WithCancel(context.Background())
	pi.Cancel = cancel
	cfg := proxy.Config{
		Version:           w.Cfg.ProxyVersion,
		MaxVersion:        w.Cfg.ProxyMax,
		Resolver:          proxycore.NewResolver(contact...),
		ReconnectPolicy:   proxycore.NewReconnectPolicyWithDelays(w.Cfg.ReconnBase, w.Cfg.ReconnMax),
		NumConns:          w.Cfg.NumConns,
		Logger:            w.proxyLogger(),
		HeartBeatInterval: w.Cfg.Heartbeat,
		ConnectTimeout:    w.Cfg.ConnectTimeout,
		IdleTimeout:       w.Cfg.IdleTimeout,
		IdempotentGraph:   w.Cfg.IdempotentGraph,
		RPCAddr:           w.Cfg.RPCAddr,
		DC:                w.Cfg.DC,
		Peers:             w.Cfg.Peers,
		Tokens:            w.Cfg.Tokens,
		PreparedCache:     w.Cfg.PreparedCache,
	}
	if w.Cfg.AuthUser != "" {
		cfg.Auth = proxycore.NewPasswordAuth(w.Cfg.AuthUser, w.Cfg.AuthPass)
	}
	if w.Cfg.TweakProxy != nil {
		w.Cfg.TweakProxy(&cfg)
	}
	if tweak != nil {
		tweak(&cfg)
	}
	simrt.Go(fmt.Sprintf("proxy%d-main", pi.ID), func() {
		p := proxy.NewProxy(ctx, cfg)
		pi.P = p
		if err := p.Connect(); err != nil {
			pi.BootErr = err
			pi.Booted = true
			return
		}
		l, err := simnet.Listen("tcp", bind)
		if err != nil {
			pi.BootErr = err
			pi.Booted = true
			return
		}
		pi.Listener = l.(*simnet.Listener)
		// whatever the embedding program does after Connect/Listen returned is ordered after them
		simrt.RaceRelease(unsafe.Pointer(&pi.sync))
		pi.Booted = true
		var serveOn net.Listener = l
		if w.Cfg.ClientTLS != nil {
			serveOn = tls.NewListener(l, w.Cfg.ClientTLS) // what proxy.Run does for --proxy-cert-file / --proxy-key-file
		}
		pi.ServeErr = p.Serve(serveOn)
		pi.Served = true
	})
	return pi
}

// ConnectClient opens a client connection to a proxy instance.
func (w *World) ConnectClient(pi *ProxyInst, version primitive.ProtocolVersion) *Client {
	c := &Client{w: w, ID: len(w.Clients) + 1, Version: version, Outstanding: map[int16]*ClientReq{}, ProxyID: pi.ID}
	l, err := w.N.Connect(pi.Listener, c, nil, fmt.Sprintf("client%d", c.ID))
	if err != nil {
		panic("harness: cannot connect client: " + err.Error())
	}
	c.Link = l
	w.Clients = append(w.Clients, c)
	w.Logf("%s: CONNECT to proxy%d (%s)", c, pi.ID, versionName(version))
	return c
}

// ConnectClientVia connects a client to a proxy that listens on every address of its host, through
// the address ip: the proxy sees ip as the local address of that connection.
func (w *World) ConnectClientVia(pi *ProxyInst, version primitive.ProtocolVersion, ip string) *Client {
	c := &Client{w: w, ID: len(w.Clients) + 1, Version: version, Outstanding: map[int16]*ClientReq{}, ProxyID: pi.ID}
	l, err := w.N.ConnectLocal(pi.Listener, c, &net.TCPAddr{IP: net.ParseIP(ip), Port: 9042}, fmt.Sprintf("client%d", c.ID))
	if err != nil {
		panic("harness: cannot connect client: " + err.Error())
	}
	c.Link = l
	w.Clients = append(w.Clients, c)
	w.Logf("%s: CONNECT to proxy%d via %s (%s)", c, pi.ID, ip, versionName(version))
	return c
}

// traceOn (SIM_TRACE): every scheduler decision goes to stderr (debugging aid, not part of the log hash).
var traceOn = os.Getenv("SIM_TRACE") != ""

// ---------------------------------------------------------------- the scheduler loop

type actKind int

const (
	actTask actKind = iota
	actNet
	actPeer
	actWork
	actFault
	actClock
)

type netAct struct {
	l     *simnet.Link
	toSUT bool
	dial  *simnet.PendingDial
}

func (w *World) netActs() []netAct {
	var out []netAct
	for _, d := range w.N.PendingDials() {
		out = append(out, netAct{dial: d})
	}
	for _, l := range w.N.Links() {
		if l.Stalled || l.IsReset() {
			continue
		}
		if l.PendingToPeer() > 0 {
			out = append(out, netAct{l: l})
		}
		if l.PendingToSUT() > 0 {
			out = append(out, netAct{l: l, toSUT: true})
		}
	}
	return out
}

func (w *World) noteSwitch(t *simrt.Task) {
	h := fnv.New64a()
	h.Write([]byte(t.Name))
	h.Write([]byte(t.OpLabel()))
	x := h.Sum64()
	w.switchHash = (w.switchHash ^ x) * 1099511628211
	if w.lastTask != t {
		w.Switches++
		var from uint64
		if w.lastTask != nil {
			hh := fnv.New64a()
			hh.Write([]byte(w.lastTask.Name))
			hh.Write([]byte(w.lastTask.OpLabel()))
			from = hh.Sum64()
		}
		if len(w.edges) < 1<<16 {
			w.edges[from*31+x] = struct{}{}
		}
	}
}

func (w *World) SwitchHash() uint64 { return w.switchHash }
func (w *World) EdgeCount() int     { return len(w.edges) }
func (w *World) Edges() []uint64 {
	out := make([]uint64, 0, len(w.edges))
	for e := range w.edges {
		out = append(out, e)
	}
	sort.Slice(out, func(i, j int) bool { return out[i] < out[j] })
	return out
}

// StepOnce performs one scheduler step. It returns false when nothing at all was enabled
// even after letting the clock run for maxIdle.
func (w *World) StepOnce(maxIdle time.Duration) bool {
	w.Iter++
	if w.Iter > 8*w.Cfg.MaxSteps {
		panic("world: iteration budget exhausted (a harness loop makes no progress)")
	}
	w.S.Settle()
	if p := w.S.TakePanics(); len(p) > 0 {
		for _, pi := range p {
			w.Violate("panic", "panic: "+numbersOut(firstLine(pi.Value))+" @ "+panicSite(pi.Stack), fmt.Sprintf("task %s panicked: %s\n%s", pi.Task, pi.Value, pi.Stack))
		}
		return true
	}
	if w.OnStep != nil {
		w.OnStep()
		if w.stop {
			return true
		}
	}
	tasks := w.S.RunnableTasks()
	nets := w.netActs()
	nWork, nFault := 0, 0
	if w.Workload != nil {
		nWork = w.Workload()
	}
	if w.FaultActs != nil {
		nFault = w.FaultActs()
	}
	wt := []int{0, 0, 0, 0, 0, 0}
	if len(tasks) > 0 {
		wt[actTask] = w.Cfg.WTask
	}
	if len(nets) > 0 {
		wt[actNet] = w.Cfg.WNet
	}
	if len(w.held) > 0 {
		wt[actPeer] = w.Cfg.WPeer
	}
	if nWork > 0 {
		wt[actWork] = w.Cfg.WWork
	}
	if nFault > 0 {
		wt[actFault] = 1
	}
	any := wt[0]+wt[1]+wt[2]+wt[3]+wt[4] > 0
	if any && w.Cfg.WClock > 0 && w.ClockOn && w.ClockBudget > 0 {
		wt[actClock] = w.Cfg.WClock
	}
	if !any {
		t0 := w.Now()
		r := w.S.Idle(maxIdle)
		if d := w.Now() - t0; d > 0 {
			w.Logf("clock +%v (idle, limit %v)", d, maxIdle)
		}
		return r
	}
	switch actKind(w.C.Weighted("cat", wt)) {
	case actTask:
		// order: the task that ran last first (so that 0 = "keep going"), then by id
		if w.lastTask != nil {
			for i, t := range tasks {
				if t == w.lastTask && i != 0 {
					copy(tasks[1:i+1], tasks[0:i])
					tasks[0] = t
					break
				}
			}
		}
		var t *simrt.Task
		if w.Cfg.PCT > 0 {
			t = w.pctPick(tasks)
		} else if w.Cfg.Sticky > 0 && len(tasks) > 1 && tasks[0] == w.lastTask {
			ws := make([]int, len(tasks))
			for i := range ws {
				ws[i] = 1
			}
			ws[0] = w.Cfg.Sticky
			t = tasks[w.C.Weighted("task", ws)]
		} else {
			t = tasks[w.C.Choose("task", len(tasks))]
		}
		if traceOn {
			fmt.Fprintf(os.Stderr, "TRACE %d task %s op=%s (of %d)\n", w.S.Steps, t, t.OpLabel(), len(tasks))
		}
		w.noteSwitch(t)
		w.lastTask = t
		w.spinCheck(t)
		w.S.Step(t)
		// wait until the task has parked again: harness code that runs after this step (a RunUntil
		// condition, the scenario itself) must never overlap a running task - both draw from the
		// choice stream, and the order of their draws would depend on the Go scheduler
		w.S.Settle()
	case actNet:
		a := nets[w.C.Choose("net", len(nets))]
		if traceOn {
			if a.dial != nil {
				fmt.Fprintf(os.Stderr, "TRACE %d net dial (of %d)\n", w.S.Steps, len(nets))
			} else {
				fmt.Fprintf(os.Stderr, "TRACE %d net link#%d %s toSUT=%v pending=%d/%d (of %d)\n", w.S.Steps, a.l.ID, a.l.Tag, a.toSUT, a.l.PendingToSUT(), a.l.PendingToPeer(), len(nets))
			}
		}
		if a.dial != nil {
			w.resolveDial(a.dial)
		} else if a.toSUT {
			max := 0
			if n := a.l.PendingToSUT(); n > 1 && w.Cfg.FragProb > 0 && w.C.Choose("frag?", 1000) >= 1000-w.Cfg.FragProb {
				max = 1 + w.C.Choose("fraglen", n-1)
				w.Stat("net.fragmented")
			}
			a.l.DeliverToSUT(max)
		} else {
			a.l.DeliverToPeer()
		}
	case actPeer:
		w.release(w.C.Choose("peer", len(w.held)))
	case actWork:
		w.DoWork(w.C.Choose("work", nWork))
	case actFault:
		w.DoFault(w.C.Choose("fault", nFault))
	case actClock:
		w.Stat("clock.early")
		w.ClockBudget--
		jump := []time.Duration{time.Millisecond, 100 * time.Millisecond, time.Second, 11 * time.Second, 35 * time.Second}[w.C.Choose("jump", 5)]
		if jump > maxIdle {
			jump = maxIdle
		}
		w.S.Idle(jump)
	}
	return true
}

// pctPick implements the PCT discipline for the task category: every task gets a random
// priority when first seen, the runnable task of highest priority runs, and at d pre-drawn step
// numbers the task that is running drops below all others. A task that ran 4000 steps in a row is
// demoted too (PCT assumes tasks block; a polling task must not starve the task it waits for).
func (w *World) pctPick(tasks []*simrt.Task) *simrt.Task {
	if w.pctAt == nil {
		for i := 0; i < w.Cfg.PCT; i++ {
			w.pctAt = append(w.pctAt, 1+w.C.Choose("pct.at", 6000))
		}
	}
	w.pctSteps++
	best := tasks[0]
	for _, t := range tasks {
		for len(w.pctPrio) <= t.ID {
			w.pctPrio = append(w.pctPrio, 0)
		}
		if w.pctPrio[t.ID] == 0 {
			w.pctPrio[t.ID] = 1000 + w.C.Choose("pct.prio", 1<<16)
		}
		if p, b := w.pctPrio[t.ID], w.pctPrio[best.ID]; p > b || (p == b && t.ID < best.ID) {
			best = t
		}
	}
	if best == w.lastTask {
		w.pctRun++
	} else {
		w.pctRun = 0
	}
	demote := w.pctRun >= 4000
	for i, at := range w.pctAt {
		if at == w.pctSteps {
			demote = true
			w.pctAt[i] = -1
		}
	}
	if demote {
		// below every priority handed out so far, and below earlier demotions
		w.pctPrio[best.ID] = 999 - w.pctSteps
		if w.pctPrio[best.ID] < 1 {
			w.pctPrio[best.ID] = 1
		}
		w.pctRun = 0
		w.Stat("sched.pct_demotions")
	}
	return best
}

// spinCheck is the livelock detector. Steps are counted in windows of spinWindow task steps;
// when a single task took >= 90% of a window it is probably busy-waiting, and since a real busy
// loop consumes wall-clock time the clock is advanced to the next timer (otherwise simulated
// time would stand still while it spins and the timers that could end the wait would never
// fire). A task that dominates spinLimit consecutive windows although every pending timer had
// its chance to fire is reported as a livelock.
const (
	spinWindow = 2000
	spinLimit  = 25
)

func (w *World) spinCheck(t *simrt.Task) {
	if w.winSteps == nil {
		w.winSteps = map[*simrt.Task]int{}
	}
	w.winSteps[t]++
	w.winCount++
	if w.winCount < spinWindow {
		return
	}
	var top *simrt.Task
	for k, v := range w.winSteps {
		if top == nil || v > w.winSteps[top] || (v == w.winSteps[top] && k.ID < top.ID) {
			top = k
		}
	}
	share := w.winSteps[top]
	w.winSteps = map[*simrt.Task]int{}
	w.winCount = 0
	if share*10 < spinWindow*9 {
		w.spinRuns = 0
		return
	}
	if w.spinTask != top {
		w.spinTask, w.spinRuns = top, 0
	}
	w.spinRuns++
	w.Stat("clock.forced_by_spin")
	w.S.Idle(time.Hour)
	if w.spinRuns >= spinLimit {
		w.Violate("livelock", "livelock: "+top.Name+" spinning in "+top.OpLabel(),
			fmt.Sprintf("task %s took >=90%% of %d consecutive windows of %d scheduler steps (last op %s) while simulated time was advanced to every pending timer: it is busy-waiting on a condition that never becomes true", top, spinLimit, spinWindow, top.OpLabel()))
	}
}

// RunUntil steps the world until cond holds, a violation stops the run, the step budget or
// the simulated-time budget is exhausted. It returns true if cond held.
func (w *World) RunUntil(cond func() bool, maxSim time.Duration) bool {
	deadline := w.Now() + maxSim
	for !w.stop {
		if cond() {
			return true
		}
		if w.S.Steps >= w.Cfg.MaxSteps {
			w.truncate()
			return false
		}
		now := w.Now()
		if now >= deadline {
			return false
		}
		w.StepOnce(deadline - now)
	}
	return false
}

// Quiesce runs until no task is runnable and nothing is deliverable (timers are not waited for).
func (w *World) Quiesce() {
	for !w.stop {
		if w.S.Steps >= w.Cfg.MaxSteps {
			w.truncate()
			return
		}
		w.S.Settle()
		if len(w.S.RunnableTasks()) == 0 && len(w.netActs()) == 0 && (len(w.held) == 0 || w.Cfg.WPeer == 0) {
			return
		}
		save := w.Workload
		w.Workload = nil
		w.StepOnce(time.Nanosecond)
		w.Workload = save
	}
}

// Teardown cancels the proxies, lets them unwind, and kills what remains.
func (w *World) Teardown() {
	for _, pi := range w.Proxies {
		pi.Cancel()
		if pi.P != nil && pi.Booted && pi.BootErr == nil {
			p := pi.P
			simrt.Go("teardown-close", func() { _ = p.Close() })
		}
	}
	w.Workload, w.FaultActs, w.OnStep = nil, nil, nil
	stop := w.stop
	w.stop = false
	for i := 0; i < 20000; i++ {
		w.S.Settle()
		w.S.TakePanics()
		ts := w.S.RunnableTasks()
		if len(ts) == 0 {
			for _, l := range w.N.Links() {
				if !l.IsReset() {
					l.PeerReset()
				}
			}
			w.S.Settle()
			if len(w.S.RunnableTasks()) == 0 {
				break
			}
			continue
		}
		w.S.Step(ts[0])
	}
	w.stop = stop
	w.S.KillAll()
}

// numbersOut replaces every run of digits by N, so that one defect has one signature whatever
// index, length or address its panic message happens to carry.
func numbersOut(s string) string {
	var b []byte
	in := false
	for i := 0; i < len(s); i++ {
		c := s[i]
		if c >= '0' && c <= '9' {
			if !in {
				b = append(b, 'N')
			}
			in = true
			continue
		}
		in = false
		b = append(b, c)
	}
	return string(b)
}

func firstLine(s string) string {
	if i := strings.IndexByte(s, '\n'); i >= 0 {
		s = s[:i]
	}
	if len(s) > 160 {
		s = s[:160]
	}
	return s
}

// panicSite extracts the innermost cql-proxy frame of a panic stack.
func panicSite(stack string) string {
	lines := strings.Split(stack, "\n")
	for i, l := range lines {
		if strings.Contains(l, "github.com/datastax/cql-proxy/") && !strings.Contains(l, "simrt") && i+1 < len(lines) {
			f := strings.TrimSpace(lines[i])
			if j := strings.LastIndex(f, "("); j > 0 {
				f = f[:j]
			}
			f = strings.TrimPrefix(f, "github.com/datastax/cql-proxy/")
			return f
		}
	}
	return "?"
}

// Seq returns the current global event sequence number.
func (w *World) Seq() uint64 { return w.seq }

// EncodeFrame encodes a frame with the reference codec (exported for scenarios).
func EncodeFrame(compression string, frm *frame.Frame) []byte { return encodeFrame(compression, frm) }

// TryEncodeFrame is EncodeFrame for frames that were decoded from bytes the SUT produced: such a
// frame may hold values the reference encoder refuses, which is a finding, not a harness error.
func TryEncodeFrame(compression string, frm *frame.Frame) (raw []byte, err error) {
	defer func() {
		if r := recover(); r != nil {
			err = fmt.Errorf("%v", r)
		}
	}()
	return encodeFrame(compression, frm), nil
}

// DecodeFrame decodes a frame with the reference codec (exported for scenarios).
func DecodeFrame(compression string, raw []byte) (*frame.Frame, error) {
	return decodeFrame(compression, raw)
}
