package world

import (
	"bytes"
	"encoding/binary"
	"fmt"
	"net"
	"regexp"
	"sort"

	"github.com/datastax/go-cassandra-native-protocol/compression/lz4"
	"github.com/datastax/go-cassandra-native-protocol/compression/snappy"
	"github.com/datastax/go-cassandra-native-protocol/datacodec"
	"github.com/datastax/go-cassandra-native-protocol/datatype"
	"github.com/datastax/go-cassandra-native-protocol/frame"
	"github.com/datastax/go-cassandra-native-protocol/message"
	"github.com/datastax/go-cassandra-native-protocol/primitive"
)

// The harness speaks the native protocol with the reference codec of
// go-cassandra-native-protocol (never with the proxy's partial codecs).
var refCodecs = map[string]frame.RawCodec{
	"":       frame.NewRawCodec(),
	"lz4":    frame.NewRawCodecWithCompression(&lz4.Compressor{}),
	"snappy": frame.NewRawCodecWithCompression(&snappy.Compressor{}),
}

const hdrLen = 9

// splitFrames cuts complete frames off the front of buf (9-byte header from v3 on, 8 bytes for v1/v2).
func splitFrames(buf *[]byte) [][]byte {
	var out [][]byte
	for {
		b := *buf
		if len(b) < 1 {
			return out
		}
		hl := hdrLen
		if b[0]&0x7f < 3 {
			hl = 8
		}
		if len(b) < hl {
			return out
		}
		n := int(binary.BigEndian.Uint32(b[hl-4 : hl]))
		if n < 0 || n > 256<<20 {
			// garbage length: hand the rest over as one blob so the caller can fail on it
			out = append(out, b)
			*buf = nil
			return out
		}
		if len(b) < hl+n {
			return out
		}
		out = append(out, b[:hl+n:hl+n])
		*buf = b[hl+n:]
		if len(*buf) == 0 {
			*buf = nil
		}
	}
}

// DecodesUnder reports whether raw is a well-formed frame for a connection with the given compression.
func DecodesUnder(compression string, raw []byte) bool {
	_, err := decodeFrame(compression, raw)
	return err == nil
}

func decodeFrame(compression string, raw []byte) (frm *frame.Frame, err error) {
	c, ok := refCodecs[compression]
	if !ok {
		return nil, fmt.Errorf("unknown compression %q", compression)
	}
	// the reference codec panics on some malformed bodies: bytes the SUT produced that make it
	// panic are undecodable bytes (a finding), not a harness failure
	defer func() {
		if r := recover(); r != nil {
			frm, err = nil, fmt.Errorf("reference codec panicked: %v", r)
		}
	}()
	return c.DecodeFrame(bytes.NewReader(raw))
}

func encodeFrame(compression string, frm *frame.Frame) []byte {
	b := encodeFrame1(compression, frm)
	if frm.Header.Flags.Contains(primitive.HeaderFlagCompressed) {
		// The reference lz4 compressor produces frames it cannot decompress itself when the body is
		// incompressible; a peer may choose per frame whether to compress, so such frames go out uncompressed.
		if _, err := decodeFrame(compression, b); err != nil {
			frm.SetCompress(false)
			b = encodeFrame1(compression, frm)
		}
	}
	return b
}

func encodeFrame1(compression string, frm *frame.Frame) []byte {
	c := refCodecs[compression]
	var buf bytes.Buffer
	if err := c.EncodeFrame(frm, &buf); err != nil {
		panic(fmt.Sprintf("harness: cannot encode %v: %v", frm, err))
	}
	b := buf.Bytes()
	// Go maps are encoded in iteration order, which differs between executions; bodies that are
	// nothing but a map are rebuilt with sorted keys so that one seed is one byte sequence.
	if !frm.Header.Flags.Contains(primitive.HeaderFlagCompressed) && frm.Header.Flags == 0 && len(b) >= hdrLen {
		var body []byte
		str := func(x string) { body = append(body, byte(len(x)>>8), byte(len(x))); body = append(body, x...) }
		switch m := frm.Body.Message.(type) {
		case *message.Startup:
			if len(m.Options) > 1 {
				ks := make([]string, 0, len(m.Options))
				for k := range m.Options {
					ks = append(ks, k)
				}
				sort.Strings(ks)
				body = append(body, byte(len(ks)>>8), byte(len(ks)))
				for _, k := range ks {
					str(k)
					str(m.Options[k])
				}
			}
		case *message.Supported:
			if len(m.Options) > 1 {
				ks := make([]string, 0, len(m.Options))
				for k := range m.Options {
					ks = append(ks, k)
				}
				sort.Strings(ks)
				body = append(body, byte(len(ks)>>8), byte(len(ks)))
				for _, k := range ks {
					str(k)
					vs := m.Options[k]
					body = append(body, byte(len(vs)>>8), byte(len(vs)))
					for _, v := range vs {
						str(v)
					}
				}
			}
		}
		if body != nil {
			if len(body) != len(b)-hdrLen {
				panic("harness: canonical map body has another length than the reference encoding")
			}
			b = append(append([]byte(nil), b[:hdrLen]...), body...)
		}
	}
	// The reference encoder counts 16 bytes of tracing id into the body length of *request* frames
	// that merely carry the tracing flag (requests have no tracing id): correct the length field.
	if len(b) >= hdrLen && int(binary.BigEndian.Uint32(b[5:9])) != len(b)-hdrLen {
		binary.BigEndian.PutUint32(b[5:9], uint32(len(b)-hdrLen))
	}
	return b
}

var tokenRe = regexp.MustCompile(`tok[0-9]+x`)

// tokenOf extracts the request token from a decoded request message (query text, bound
// values, batch children).
func tokenOf(msg message.Message) string {
	scanVals := func(vs []*primitive.Value) string {
		for _, v := range vs {
			if v != nil {
				if t := tokenRe.Find(v.Contents); t != nil {
					return string(t)
				}
			}
		}
		return ""
	}
	scanOpts := func(o *message.QueryOptions) string {
		if o == nil {
			return ""
		}
		if t := scanVals(o.PositionalValues); t != "" {
			return t
		}
		for _, v := range o.NamedValues {
			if v != nil {
				if t := tokenRe.Find(v.Contents); t != nil {
					return string(t)
				}
			}
		}
		return ""
	}
	switch m := msg.(type) {
	case *message.Query:
		if t := tokenRe.FindString(m.Query); t != "" {
			return t
		}
		return scanOpts(m.Options)
	case *message.Prepare:
		return tokenRe.FindString(m.Query)
	case *message.Execute:
		return scanOpts(m.Options)
	case *message.Batch:
		for _, c := range m.Children {
			if t := tokenRe.FindString(c.Query); t != "" {
				return t
			}
			if t := scanVals(c.Values); t != "" {
				return t
			}
		}
	}
	return ""
}

func mustEncode(c datacodec.Codec, v interface{}, ver primitive.ProtocolVersion) []byte {
	b, err := c.Encode(v, ver)
	if err != nil {
		panic(err)
	}
	return b
}

func encVarchar(s string, ver primitive.ProtocolVersion) []byte {
	return mustEncode(datacodec.Varchar, s, ver)
}
func encInet(ip net.IP, ver primitive.ProtocolVersion) []byte {
	return mustEncode(datacodec.Inet, ip, ver)
}
func encUUID(u primitive.UUID, ver primitive.ProtocolVersion) []byte {
	return mustEncode(datacodec.Uuid, u, ver)
}
func encStrList(l []string, ver primitive.ProtocolVersion) []byte {
	c, err := datacodec.NewList(datatype.NewList(datatype.Varchar))
	if err != nil {
		panic(err)
	}
	return mustEncode(c, l, ver)
}

func col(ks, table, name string, t datatype.DataType) *message.ColumnMetadata {
	return &message.ColumnMetadata{Keyspace: ks, Table: table, Name: name, Type: t}
}

// tokenRows is the ROWS result a fake backend returns for a tokenised request: one varchar
// column holding the token, so that the client can check which request was answered.
func tokenRows(token string, ver primitive.ProtocolVersion) *message.RowsResult {
	return &message.RowsResult{
		Metadata: &message.RowsMetadata{ColumnCount: 1, Columns: []*message.ColumnMetadata{col("ks", "t", "tok", datatype.Varchar)}},
		Data:     message.RowSet{message.Row{encVarchar(token, ver)}},
	}
}

func versionName(v primitive.ProtocolVersion) string { return v.String() }
