// Package simatomic mirrors sync/atomic with a scheduling point before every operation.
package simatomic

import (
	"sync/atomic"
	"unsafe"

	"cqlsim/simrt"
)

func y() {
	if simrt.Active() {
		simrt.YieldOp("atomic")
	}
}

func AddInt32(addr *int32, delta int32) int32       { y(); return atomic.AddInt32(addr, delta) }
func AddInt64(addr *int64, delta int64) int64       { y(); return atomic.AddInt64(addr, delta) }
func AddUint32(addr *uint32, delta uint32) uint32   { y(); return atomic.AddUint32(addr, delta) }
func AddUint64(addr *uint64, delta uint64) uint64   { y(); return atomic.AddUint64(addr, delta) }
func AddUintptr(addr *uintptr, d uintptr) uintptr   { y(); return atomic.AddUintptr(addr, d) }
func LoadInt32(addr *int32) int32                   { y(); return atomic.LoadInt32(addr) }
func LoadInt64(addr *int64) int64                   { y(); return atomic.LoadInt64(addr) }
func LoadUint32(addr *uint32) uint32                { y(); return atomic.LoadUint32(addr) }
func LoadUint64(addr *uint64) uint64                { y(); return atomic.LoadUint64(addr) }
func LoadUintptr(addr *uintptr) uintptr             { y(); return atomic.LoadUintptr(addr) }
func LoadPointer(addr *unsafe.Pointer) unsafe.Pointer { y(); return atomic.LoadPointer(addr) }
func StoreInt32(addr *int32, v int32)               { y(); atomic.StoreInt32(addr, v) }
func StoreInt64(addr *int64, v int64)               { y(); atomic.StoreInt64(addr, v) }
func StoreUint32(addr *uint32, v uint32)            { y(); atomic.StoreUint32(addr, v) }
func StoreUint64(addr *uint64, v uint64)            { y(); atomic.StoreUint64(addr, v) }
func StoreUintptr(addr *uintptr, v uintptr)         { y(); atomic.StoreUintptr(addr, v) }
func StorePointer(addr *unsafe.Pointer, v unsafe.Pointer) { y(); atomic.StorePointer(addr, v) }
func SwapInt32(addr *int32, v int32) int32          { y(); return atomic.SwapInt32(addr, v) }
func SwapInt64(addr *int64, v int64) int64          { y(); return atomic.SwapInt64(addr, v) }
func SwapUint32(addr *uint32, v uint32) uint32      { y(); return atomic.SwapUint32(addr, v) }
func SwapUint64(addr *uint64, v uint64) uint64      { y(); return atomic.SwapUint64(addr, v) }
func SwapUintptr(addr *uintptr, v uintptr) uintptr  { y(); return atomic.SwapUintptr(addr, v) }
func SwapPointer(addr *unsafe.Pointer, v unsafe.Pointer) unsafe.Pointer {
	y()
	return atomic.SwapPointer(addr, v)
}
func CompareAndSwapInt32(addr *int32, old, new int32) bool {
	y()
	return atomic.CompareAndSwapInt32(addr, old, new)
}
func CompareAndSwapInt64(addr *int64, old, new int64) bool {
	y()
	return atomic.CompareAndSwapInt64(addr, old, new)
}
func CompareAndSwapUint32(addr *uint32, old, new uint32) bool {
	y()
	return atomic.CompareAndSwapUint32(addr, old, new)
}
func CompareAndSwapUint64(addr *uint64, old, new uint64) bool {
	y()
	return atomic.CompareAndSwapUint64(addr, old, new)
}
func CompareAndSwapUintptr(addr *uintptr, old, new uintptr) bool {
	y()
	return atomic.CompareAndSwapUintptr(addr, old, new)
}
func CompareAndSwapPointer(addr *unsafe.Pointer, old, new unsafe.Pointer) bool {
	y()
	return atomic.CompareAndSwapPointer(addr, old, new)
}
func AndInt32(addr *int32, mask int32) int32     { y(); return atomic.AndInt32(addr, mask) }
func AndUint32(addr *uint32, mask uint32) uint32 { y(); return atomic.AndUint32(addr, mask) }
func OrInt32(addr *int32, mask int32) int32      { y(); return atomic.OrInt32(addr, mask) }
func OrUint32(addr *uint32, mask uint32) uint32  { y(); return atomic.OrUint32(addr, mask) }

type Value struct{ v atomic.Value }

func (v *Value) Load() interface{}         { y(); return v.v.Load() }
func (v *Value) Store(val interface{})     { y(); v.v.Store(val) }
func (v *Value) Swap(n interface{}) interface{} { y(); return v.v.Swap(n) }
func (v *Value) CompareAndSwap(old, new interface{}) bool {
	y()
	return v.v.CompareAndSwap(old, new)
}

type Bool struct{ v atomic.Bool }

func (x *Bool) Load() bool                      { y(); return x.v.Load() }
func (x *Bool) Store(val bool)                  { y(); x.v.Store(val) }
func (x *Bool) Swap(n bool) bool                { y(); return x.v.Swap(n) }
func (x *Bool) CompareAndSwap(old, new bool) bool { y(); return x.v.CompareAndSwap(old, new) }

type Int32 struct{ v atomic.Int32 }

func (x *Int32) Load() int32                       { y(); return x.v.Load() }
func (x *Int32) Store(val int32)                   { y(); x.v.Store(val) }
func (x *Int32) Swap(n int32) int32                { y(); return x.v.Swap(n) }
func (x *Int32) Add(d int32) int32                 { y(); return x.v.Add(d) }
func (x *Int32) CompareAndSwap(old, new int32) bool { y(); return x.v.CompareAndSwap(old, new) }

type Int64 struct{ v atomic.Int64 }

func (x *Int64) Load() int64                       { y(); return x.v.Load() }
func (x *Int64) Store(val int64)                   { y(); x.v.Store(val) }
func (x *Int64) Swap(n int64) int64                { y(); return x.v.Swap(n) }
func (x *Int64) Add(d int64) int64                 { y(); return x.v.Add(d) }
func (x *Int64) CompareAndSwap(old, new int64) bool { y(); return x.v.CompareAndSwap(old, new) }

type Uint32 struct{ v atomic.Uint32 }

func (x *Uint32) Load() uint32                       { y(); return x.v.Load() }
func (x *Uint32) Store(val uint32)                   { y(); x.v.Store(val) }
func (x *Uint32) Swap(n uint32) uint32               { y(); return x.v.Swap(n) }
func (x *Uint32) Add(d uint32) uint32                { y(); return x.v.Add(d) }
func (x *Uint32) CompareAndSwap(old, new uint32) bool { y(); return x.v.CompareAndSwap(old, new) }

type Uint64 struct{ v atomic.Uint64 }

func (x *Uint64) Load() uint64                       { y(); return x.v.Load() }
func (x *Uint64) Store(val uint64)                   { y(); x.v.Store(val) }
func (x *Uint64) Swap(n uint64) uint64               { y(); return x.v.Swap(n) }
func (x *Uint64) Add(d uint64) uint64                { y(); return x.v.Add(d) }
func (x *Uint64) CompareAndSwap(old, new uint64) bool { y(); return x.v.CompareAndSwap(old, new) }

type Pointer[T any] struct{ v atomic.Pointer[T] }

func (x *Pointer[T]) Load() *T                      { y(); return x.v.Load() }
func (x *Pointer[T]) Store(val *T)                  { y(); x.v.Store(val) }
func (x *Pointer[T]) Swap(n *T) *T                  { y(); return x.v.Swap(n) }
func (x *Pointer[T]) CompareAndSwap(old, new *T) bool { y(); return x.v.CompareAndSwap(old, new) }
