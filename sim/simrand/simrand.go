// Package simrand replaces math/rand in the SUT: every draw comes from the run's choice stream.
package simrand

import (
	"math/rand"

	"cqlsim/simrt"
)

func Intn(n int) int {
	if !simrt.Active() {
		return rand.Intn(n)
	}
	if n <= 0 {
		panic("invalid argument to Intn")
	}
	return simrt.Choose("rand", n)
}

func Int31n(n int32) int32 { return int32(Intn(int(n))) }
func Int63n(n int64) int64 {
	if n <= 1<<30 {
		return int64(Intn(int(n)))
	}
	return int64(Intn(1<<30)) % n
}
func Int() int         { return Intn(1 << 30) }
func Int31() int32     { return int32(Intn(1 << 30)) }
func Int63() int64     { return int64(Intn(1 << 30)) }
func Uint32() uint32   { return uint32(Intn(1 << 30)) }
func Float64() float64 { return float64(Intn(1<<30)) / float64(1<<30) }
func Float32() float32 { return float32(Float64()) }
func Seed(int64)       {}
func Perm(n int) []int {
	p := make([]int, n)
	for i := range p {
		j := Intn(i + 1)
		p[i] = p[j]
		p[j] = i
	}
	return p
}
func Shuffle(n int, swap func(i, j int)) {
	for i := n - 1; i > 0; i-- {
		swap(i, Intn(i+1))
	}
}
