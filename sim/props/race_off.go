//go:build !race

package props

const raceBuild = false

func raceReports() (sigs []string, details []string) { return nil, nil }
