package props

import (
	"context"
	"fmt"
	"net"
	"os"
	"strings"
	"time"

	"cqlsim/simnet"
	"cqlsim/simrt"
	"cqlsim/world"

	"github.com/datastax/cql-proxy/proxy"
	"github.com/datastax/go-cassandra-native-protocol/message"
	"github.com/datastax/go-cassandra-native-protocol/primitive"
	"go.uber.org/zap"
)

func init() { Scenarios["C20"] = c20 }

type verSpelling struct {
	text string
	v    primitive.ProtocolVersion
}

var c20Versions = []verSpelling{{"3", 3}, {"v3", 3}, {"4", 4}, {"v4", 4}, {"5", 5}, {"v5", 5},
	{"65", primitive.ProtocolVersionDse1}, {"dsev1", primitive.ProtocolVersionDse1}, {"66", primitive.ProtocolVersionDse2}, {"dsev2", primitive.ProtocolVersionDse2}}

// anything that is not one of the ten documented spellings: near misses, and numbers that a
// lenient or narrowing conversion would map onto a real version (leading zeros, signs, values
// that are congruent to a version modulo 256)
var c20BadVersions = []string{"v6", "6", "2", "v2", "1", "dsev3", "67", "dse1", "vv4", "four", "v4.0", "0",
	"04", "+4", "065", "0x4", "259", "260", "261", "321", "322", "516", "65540", "-252", "-190", "256", "255", "64", "v65", "4.0", "3e0"}

var c20Consistencies = []struct {
	name string
	cl   primitive.ConsistencyLevel
}{{"any", primitive.ConsistencyLevelAny}, {"one", primitive.ConsistencyLevelOne}, {"two", primitive.ConsistencyLevelTwo}, {"three", primitive.ConsistencyLevelThree},
	{"quorum", primitive.ConsistencyLevelQuorum}, {"all", primitive.ConsistencyLevelAll}, {"local_quorum", primitive.ConsistencyLevelLocalQuorum},
	{"each_quorum", primitive.ConsistencyLevelEachQuorum}, {"serial", primitive.ConsistencyLevelSerial}, {"local_serial", primitive.ConsistencyLevelLocalSerial},
	{"local_one", primitive.ConsistencyLevelLocalOne}}

func caseVariant(s string, k int) string {
	switch k % 4 {
	case 1:
		return strings.ToUpper(s)
	case 2:
		return strings.Title(s)
	case 3:
		var b []byte
		for i := 0; i < len(s); i++ {
			ch := s[i]
			if i%2 == 1 && ch >= 'a' && ch <= 'z' {
				ch -= 32
			}
			b = append(b, ch)
		}
		return string(b)
	}
	return s
}

// c20Config is one configuration with what the documentation says must happen.
type c20Config struct {
	opts       map[string]string         // option name (flag spelling without dashes) -> value
	yamlExtra  string                    // extra YAML (peers)
	backendMax primitive.ProtocolVersion // if set: the highest version the backend speaks
	route      int                       // 0 flags, 1 environment, 2 YAML file
	refuse     bool                      // start-up must fail with a non-zero exit
	wantVer    primitive.ProtocolVersion
	wantMax    primitive.ProtocolVersion
	unsup      primitive.ConsistencyLevel
	override   primitive.ConsistencyLevel
	checkCL    bool
	dse        bool
	desc       string
}

var c20Env = map[string]string{"protocol-version": "PROTOCOL_VERSION", "max-protocol-version": "MAX_PROTOCOL_VERSION", "contact-points": "CONTACT_POINTS",
	"heartbeat-interval": "HEARTBEAT_INTERVAL", "idle-timeout": "IDLE_TIMEOUT", "num-conns": "NUM_CONNS", "bind": "BIND",
	"unsupported-write-consistencies": "UNSUPPORTED_WRITE_CONSISTENCIES", "rpc-address": "RPC_ADDRESS", "connect-timeout": "CONNECT_TIMEOUT"}

// C20 — configuration values are honoured as documented and bad configurations refused.
func c20(e *Env) {
	c := e.C
	cfgW := swarmWorld(e)
	cfgW.AuthUser, cfgW.AuthPass = "", "" // the generated command lines carry no credentials
	cfgW.WClock = 0
	cfgW.Hosts = 1
	cfgW.KeepLog = e.Keep
	cc := c20Config{opts: map[string]string{"bind": "127.0.0.1:9042"}, wantVer: 4, wantMax: 4}
	dim := int(e.Seed % 7)
	idx := int(e.Seed / 7)
	switch dim {
	case 0: // every spelling of protocol-version selects the version it names
		sp := c20Versions[idx%len(c20Versions)]
		cc.opts["protocol-version"] = caseVariant(sp.text, idx/len(c20Versions))
		cc.wantVer = sp.v
		cc.dse = sp.v.IsDse()
		cc.opts["max-protocol-version"] = "v5"
		cc.wantMax = 5
		if cc.dse {
			cc.opts["max-protocol-version"] = "dsev2"
			cc.wantMax = primitive.ProtocolVersionDse2
		}
		cc.desc = "protocol-version spelling " + cc.opts["protocol-version"]
	case 1: // every spelling of max-protocol-version gates clients at the version it names
		sp := c20Versions[idx%len(c20Versions)]
		cc.opts["max-protocol-version"] = caseVariant(sp.text, idx/len(c20Versions))
		cc.opts["protocol-version"] = "v3"
		cc.wantVer, cc.wantMax = 3, sp.v
		cc.dse = c.Choose("dsebackend", 2) == 1
		cc.desc = "max-protocol-version spelling " + cc.opts["max-protocol-version"]
	case 2: // all pairs (version, max)
		a := c20Versions[(idx%5)*2+1]
		b := c20Versions[((idx/5)%5)*2+1]
		cc.opts["protocol-version"], cc.opts["max-protocol-version"] = a.text, b.text
		cc.wantVer, cc.wantMax = a.v, b.v
		cc.dse = a.v.IsDse()
		cc.refuse = a.v > b.v
		cc.desc = fmt.Sprintf("pair protocol-version=%s max-protocol-version=%s", a.text, b.text)
		if cc.refuse && c.Choose("backend-lags", 2) == 1 {
			// the backend speaks less than what is configured (the proxy would negotiate down): the
			// configuration is contradictory all the same
			cc.backendMax = []primitive.ProtocolVersion{3, 4}[c.Choose("backend-lags-at", 2)]
			cc.desc += fmt.Sprintf(" (backend speaks up to %s)", cc.backendMax)
		}
	case 3: // consistency names
		u := c20Consistencies[idx%11]
		o := c20Consistencies[(idx/11)%11]
		// the level under test sits somewhere in a list of one to four levels, in any order
		names := []string{caseVariant(u.name, idx/121)}
		for k := c.Choose("c20listlen", 4); k > 0; k-- {
			x := c20Consistencies[c.Choose("c20listother", 11)]
			dup := x.name == o.name // (a list that names the override level itself is asking for trouble)
			for _, n := range names {
				if strings.EqualFold(n, x.name) {
					dup = true
				}
			}
			if !dup {
				names = append(names, x.name)
			}
		}
		for i := len(names) - 1; i > 0; i-- {
			j := c.Choose("c20listorder", i+1)
			names[i], names[j] = names[j], names[i]
		}
		cc.opts["unsupported-write-consistencies"] = strings.Join(names, ",")
		cc.opts["unsupported-write-consistency-override"] = caseVariant(o.name, idx/121+1)
		cc.unsup, cc.override, cc.checkCL = u.cl, o.cl, true
		cc.desc = fmt.Sprintf("unsupported-write-consistencies=%s override=%s", cc.opts["unsupported-write-consistencies"], cc.opts["unsupported-write-consistency-override"])
	case 4: // numeric / duration boundaries
		type bnd struct {
			hb, idle string
			conns    string
			refuse   bool
		}
		bs := []bnd{{"30s", "60s", "1", false}, {"60s", "60s", "1", true}, {"61s", "60s", "1", true}, {"59999ms", "60s", "1", false}, {"1s", "1001ms", "2", false},
			{"1h", "30m", "1", true}, {"30s", "60s", "0", true}, {"30s", "60s", "-1", true}, {"30s", "60s", "3", false}, {"999ms", "1s", "1", false}, {"10s", "10s", "2", true}}
		b := bs[idx%len(bs)]
		cc.opts["heartbeat-interval"], cc.opts["idle-timeout"], cc.opts["num-conns"] = b.hb, b.idle, b.conns
		cc.refuse = b.refuse
		cc.desc = fmt.Sprintf("heartbeat-interval=%s idle-timeout=%s num-conns=%s", b.hb, b.idle, b.conns)
	case 5: // unknown names, missing backend, peers
		switch idx % 9 {
		case 0:
			cc.opts["protocol-version"] = c20BadVersions[(idx/9)%len(c20BadVersions)]
			cc.refuse = true
		case 1:
			cc.opts["max-protocol-version"] = c20BadVersions[(idx/9)%len(c20BadVersions)]
			cc.refuse = true
		case 2:
			cc.opts["unsupported-write-consistencies"] = []string{"quorumm", "local", "1", "LOCAL-QUORUM", "eachquorum"}[(idx/9)%5]
			cc.refuse = true
		case 3:
			cc.opts["unsupported-write-consistency-override"] = []string{"quorumm", "none", "7"}[(idx/9)%3]
			cc.refuse = true
		case 4:
			cc.opts["NO-CONTACT"] = "1" // no backend given at all
			cc.refuse = true
		case 5:
			// peers need addresses: this proxy's own rpc-address and one for every entry - any
			// combination of the two omissions (and none) over lists of one to three entries
			cc.route = 2
			k := idx / 9
			own := k%3 != 0 // two cases in three give this proxy an rpc-address
			if own {
				cc.opts["rpc-address"] = "10.1.1.1"
			}
			nPeers := 1 + (k/3)%3
			lack := (k / 9) % (1 << nPeers) // which entries have no rpc-address
			if !own && k%2 == 0 {
				lack = (1 << nPeers) - 1 // none has
			}
			var ents []string
			for i := 0; i < nPeers; i++ {
				if lack&(1<<i) == 0 {
					ents = append(ents, fmt.Sprintf("  - rpc-address: 10.1.1.%d\n    data-center: dc2\n", i+2))
				} else {
					ents = append(ents, "  - data-center: dc2\n")
				}
			}
			cc.yamlExtra = "peers:\n" + strings.Join(ents, "")
			cc.refuse = !own || lack != 0
		case 6:
			// tokens for this proxy: every *other* peer needs tokens too, whether or not the list
			// also has an entry for this proxy itself (with or without tokens, at any position)
			cc.route = 2
			cc.opts["rpc-address"] = "10.1.1.1"
			k := idx / 9
			nOther := 1 + k%3
			self := (k / 3) % 3 // 0 no own entry, 1 own entry without tokens, 2 own entry with tokens
			selfPos := (k / 9) % (nOther + 1)
			lack := (k / 36) % (1 << nOther) // which other peers lack tokens
			if k%5 == 0 {
				lack = 1 << ((k / 5) % nOther) // exactly one
			}
			var ents []string
			for i := 0; i < nOther; i++ {
				e := fmt.Sprintf("  - rpc-address: 10.1.1.%d\n", i+2)
				if lack&(1<<i) == 0 {
					e += fmt.Sprintf("    tokens: ['%d']\n", 100*(i+1))
				}
				ents = append(ents, e)
			}
			if self > 0 {
				e := "  - rpc-address: 10.1.1.1\n"
				if self == 2 {
					e += "    tokens: ['0']\n"
				}
				ents = append(ents[:selfPos], append([]string{e}, ents[selfPos:]...)...)
			}
			cc.yamlExtra = "tokens: ['0']\npeers:\n" + strings.Join(ents, "")
			cc.refuse = lack != 0
		case 7:
			cc.route = 2
			cc.opts["rpc-address"] = "10.1.1.1"
			cc.yamlExtra = "tokens: ['0']\npeers:\n  - rpc-address: 10.1.1.2\n    tokens: ['100']\n  - rpc-address: 10.1.1.1\n"
		case 8:
			cc.opts["no-such-option"] = "x"
			cc.route = 0
			cc.refuse = true
		}
		cc.desc = fmt.Sprintf("case %d: %v %s", idx%9, cc.opts, strings.ReplaceAll(cc.yamlExtra, "\n", "\\n"))
	case 6: // the same settings through every delivery route
		sp := c20Versions[1+2*(idx%2)] // v3 / v4
		cc.opts["protocol-version"] = sp.text
		cc.wantVer = sp.v
		cc.opts["num-conns"] = []string{"1", "2"}[idx%2]
		cc.opts["heartbeat-interval"], cc.opts["idle-timeout"] = "10s", "25s"
		cc.desc = "routes"
	}
	if dim != 5 || cc.route == 0 && cc.opts["no-such-option"] == "" {
		cc.route = c.Choose("route", 3)
	}
	if dim == 5 && (idx%9 == 5 || idx%9 == 6 || idx%9 == 7) {
		cc.route = 2
	}
	if dim == 5 && idx%9 == 8 {
		cc.route = 0
	}
	if cc.dse {
		cfgW.DSE = true
		cfgW.BackendMax = primitive.ProtocolVersionDse2
	} else {
		cfgW.BackendMax = 5
	}
	if cc.backendMax != 0 {
		cfgW.DSE = false
		cfgW.BackendMax = cc.backendMax
	}
	w := world.New(cfgW, e.S, e.N, e.C)
	e.W = w
	e.N.LoggerHook = func(string) (*zap.Logger, error) { return zap.NewNop(), nil }
	if _, noContact := cc.opts["NO-CONTACT"]; !noContact {
		cc.opts["contact-points"] = w.Nodes[0].IP.String()
		_, hb := cc.opts["heartbeat-interval"]
		_, it := cc.opts["idle-timeout"]
		if !cc.dse && cc.wantVer >= 4 && !hb && !it && c.Choose("badcontact", 3) == 2 {
			// An earlier contact point speaks only v3 (the proxy negotiates down for it) and then
			// cannot serve its system tables; the proxy moves on to the next contact point, where the
			// configured version must be what it asks for.
			bad := w.AddNode(false)
			if c.Choose("badcontact-silent", 2) == 1 {
				// ... or accepts the connection and then says nothing at all: the attempt takes its
				// whole connect time-out, and the next contact point gets a full one of its own
				bad.Stalled = true
				e.Res.Stats["probe.c20.silent_first_contact_point"]++
			} else {
				bad.MaxVersion = 3
				bad.FailControlQueries = true
			}
			cc.opts["contact-points"] = bad.IP.String() + "," + w.Nodes[0].IP.String()
			e.Res.Stats["probe.c20.unusable_first_contact_point"]++
		}
	}
	delete(cc.opts, "NO-CONTACT")
	// deliver the options
	var args []string
	var envSet []string
	yaml := ""
	for _, v := range sortedOpts(cc.opts) {
		name, val := v[0], v[1]
		route := cc.route
		if route == 1 && c20Env[name] == "" {
			route = 0 // no environment variable for this option
		}
		switch route {
		case 0:
			args = append(args, "--"+name, val)
		case 1:
			os.Setenv(c20Env[name], val)
			envSet = append(envSet, c20Env[name])
		case 2:
			if name == "contact-points" || name == "unsupported-write-consistencies" {
				yaml += fmt.Sprintf("%s: [%s]\n", name, val)
			} else {
				yaml += fmt.Sprintf("%s: %s\n", name, val)
			}
		}
	}
	// the health-check endpoint is orthogonal to everything checked here: on in a third of the runs
	if c.Choose("healthcheck", 3) == 2 {
		e.Res.Stats["probe.c20.health_check_on"]++
		switch cc.route {
		case 0:
			args = append(args, "--health-check")
		case 1:
			os.Setenv("HEALTH_CHECK", "true")
			envSet = append(envSet, "HEALTH_CHECK")
		case 2:
			yaml += "health-check: true\n"
		}
	}
	defer func() {
		for _, k := range envSet {
			os.Unsetenv(k)
		}
	}()
	yaml += cc.yamlExtra
	if yaml != "" {
		f, err := os.CreateTemp(".", "c20-*.yaml")
		if err != nil {
			e.Res.Infra = err.Error()
			return
		}
		f.WriteString(yaml)
		f.Close()
		defer os.Remove(f.Name())
		args = append(args, "--config", f.Name())
	}
	detail := fmt.Sprintf("%s [route %s] args=%v env=%v yaml=%q", cc.desc, []string{"flags", "environment", "YAML"}[cc.route], args, envSet, yaml)
	// run the real entry point
	ctx, cancel := context.WithCancel(context.Background())
	defer cancel()
	exit, done := -1, false
	simrt.Go("proxy.Run", func() {
		exit = proxy.Run(ctx, args)
		done = true
	})
	// (serving = accepting: a proxy that binds its address early and then fails to start has refused)
	cqlListener := func() *simnet.Listener {
		for _, l := range w.N.Listeners() {
			if l.Serving() && l.Addr().(*net.TCPAddr).Port != 8000 { // (8000: the health-check endpoint)
				return l
			}
		}
		return nil
	}
	serving := func() bool { return cqlListener() != nil }
	w.RunUntil(func() bool { return done || serving() }, 5*time.Minute)
	if w.Stopped() {
		return
	}
	e.Res.Shape = fmt.Sprintf("dim%d idx%d route%d", dim, idx%200, cc.route)
	e.Res.Nontrivial = true
	if cc.refuse {
		if !done || exit == 0 {
			w.Violate("c20-refuse", "bad-configuration-accepted("+c20Class(dim, idx)+")", fmt.Sprintf("%s: start-up must fail with a non-zero exit, but the proxy is serving=%v exit=%d", detail, serving(), exit))
			return
		}
		e.Res.Stats["oracle.c20.refusals_checked"]++
		e.Res.Sample = detail + " -> refused"
		return
	}
	if done {
		w.Violate("c20-accept", "good-configuration-refused("+c20Class(dim, idx)+")", fmt.Sprintf("%s: a valid configuration made Run return %d", detail, exit))
		return
	}
	// the version used towards the backend: the first STARTUP the backend saw
	var first *world.BackendConn
	for _, bc := range w.Nodes[0].Conns {
		if bc.Started && (first == nil || bc.ID < first.ID) {
			first = bc
		}
	}
	if first == nil || first.Version != cc.wantVer {
		got := "none"
		if first != nil {
			got = first.Version.String()
		}
		w.Violate("c20-version", "protocol-version-not-honoured("+strings.ToLower(cc.opts["protocol-version"])+")", fmt.Sprintf("%s: the backend (which supports every version of its family) saw the first STARTUP with %s, the option names %s", detail, got, cc.wantVer))
		return
	}
	lis := cqlListener()
	pi := &world.ProxyInst{Listener: lis}
	// the client gate is the named maximum
	probe := func(v primitive.ProtocolVersion) message.Message {
		cl := w.ConnectClient(pi, v)
		r := cl.Send("options", "", &message.Options{}, nil)
		w.RunUntil(func() bool { return len(r.Replies) > 0 || !cl.Connected() }, time.Minute)
		m := replyMsg(r)
		cl.Disconnect()
		return m
	}
	if _, ok := probe(cc.wantMax).(*message.Supported); !ok && !w.Stopped() {
		w.Violate("c20-max", "max-protocol-version-not-honoured("+strings.ToLower(cc.opts["max-protocol-version"])+")", fmt.Sprintf("%s: a client speaking %s (the named maximum) was not accepted", detail, cc.wantMax))
		return
	}
	for _, kv := range knownVersions {
		if kv > cc.wantMax {
			if _, ok := probe(kv).(*message.ProtocolError); !ok && !w.Stopped() {
				w.Violate("c20-max", "max-protocol-version-not-honoured("+strings.ToLower(cc.opts["max-protocol-version"])+")", fmt.Sprintf("%s: a client speaking %s, above the named maximum %s, was not refused", detail, kv, cc.wantMax))
				return
			}
			break
		}
	}
	if cc.checkCL {
		cl := w.ConnectClient(pi, cc.wantVer)
		st := cl.Send("startup", "", message.NewStartup(), nil)
		w.RunUntil(func() bool { return len(st.Replies) > 0 }, time.Minute)
		tok := w.NewToken()
		r := cl.Send("query", tok, world.QueryMsg("INSERT INTO ks.t (k, v) VALUES ('"+tok+"', 1)", cc.unsup), nil)
		w.RunUntil(func() bool { return len(r.Replies) > 0 }, time.Minute)
		w.Quiesce()
		atts := w.Attempts[tok]
		if len(atts) == 0 {
			if !w.Stopped() {
				w.Violate("c20-consistency", "write-not-forwarded", detail+": the write did not reach the backend")
			}
			return
		}
		q, _ := atts[0].Msg.(*message.Query)
		if q == nil || q.Options.Consistency != cc.override {
			w.Violate("c20-consistency", "consistency-name-not-honoured", fmt.Sprintf("%s: a write at %v reached the backend with %v, the configuration names the override %v", detail, cc.unsup, q.Options.Consistency, cc.override))
			return
		}
		e.Res.Stats["oracle.c20.consistency_checked"]++
	}
	// the numeric options are honoured as well: that many connections per node, kept alive by a
	// heartbeat every interval for as long as the node answers - however close to the idle time-out
	// the (valid) interval is
	if dim == 4 && !w.Stopped() {
		hbI, err1 := time.ParseDuration(cc.opts["heartbeat-interval"])
		idle, err2 := time.ParseDuration(cc.opts["idle-timeout"])
		if err1 != nil || err2 != nil {
			e.Res.Infra = "harness: cannot parse the durations of an accepted configuration"
			return
		}
		w.Quiesce()
		pooled := func() []*world.BackendConn {
			var out []*world.BackendConn
			for _, bc := range w.Nodes[0].LiveConns() {
				if bc.Started && !bc.Control {
					out = append(out, bc)
				}
			}
			return out
		}
		w.RunUntil(func() bool { return fmt.Sprint(len(pooled())) == cc.opts["num-conns"] }, 10*time.Second)
		before := pooled()
		if fmt.Sprint(len(before)) != cc.opts["num-conns"] {
			if !w.Stopped() {
				w.Violate("c20-numeric", "num-conns-not-honoured", fmt.Sprintf("%s: the node has %d pooled connections of the proxy's session", detail, len(before)))
			}
			return
		}
		t0 := w.Now()
		span := 3*idle + hbI
		if span > 5*time.Minute {
			span = 5 * time.Minute
		}
		w.RunUntil(func() bool { return false }, span)
		if w.Stopped() {
			return
		}
		for _, bc := range before {
			if bc.Closed {
				w.Violate("c20-numeric", "healthy-connection-dropped-with-valid-intervals", fmt.Sprintf("%s: %s, on which every heartbeat was answered at once, was closed within %v of idling (heartbeats seen at %v, the idling began at %v)", detail, bc, span, bc.HeartbeatsAt, t0))
				return
			}
			last := t0
			for _, at := range append(append([]time.Duration(nil), bc.HeartbeatsAt...), w.Now()) {
				if at < t0 {
					continue
				}
				if at-last > hbI+hbI/10+time.Second {
					w.Violate("c20-numeric", "heartbeat-interval-not-honoured", fmt.Sprintf("%s: %s saw no heartbeat for %v (heartbeats at %v, idling since %v)", detail, bc, at-last, bc.HeartbeatsAt, t0))
					return
				}
				last = at
			}
		}
		e.Res.Stats["oracle.c20.intervals_and_connection_count_checked"]++
	}
	// Run returns 0 when interrupted
	cancel()
	w.RunUntil(func() bool { return done }, time.Minute)
	if !done && !w.Stopped() {
		w.Violate("c20-exit", "run-does-not-return", detail+": Run did not return after its context was cancelled")
		return
	}
	if exit != 0 {
		w.Violate("c20-exit", "nonzero-exit-after-clean-shutdown", fmt.Sprintf("%s: Run returned %d after a clean shutdown", detail, exit))
		return
	}
	e.Res.Stats["oracle.c20.accepted_configurations_checked"]++
	e.Res.Sample = detail + fmt.Sprintf(" -> serving, STARTUP version %s, gate %s", cc.wantVer, cc.wantMax)
}

func c20Class(dim, idx int) string {
	switch dim {
	case 2:
		return "version above max"
	case 4:
		return "boundary"
	case 5:
		return []string{"unknown protocol-version", "unknown max-protocol-version", "unknown consistency", "unknown override consistency", "no backend", "peers without rpc-address", "tokens without peer tokens", "peers", "unknown option"}[idx%9]
	}
	return fmt.Sprintf("dim%d", dim)
}

func sortedOpts(m map[string]string) [][2]string {
	var keys []string
	for k := range m {
		keys = append(keys, k)
	}
	// deterministic order
	for i := 0; i < len(keys); i++ {
		for j := i + 1; j < len(keys); j++ {
			if keys[j] < keys[i] {
				keys[i], keys[j] = keys[j], keys[i]
			}
		}
	}
	var out [][2]string
	for _, k := range keys {
		out = append(out, [2]string{k, m[k]})
	}
	return out
}
