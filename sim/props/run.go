// Package props holds one scenario + oracle per claimed property and the in-process runner.
package props

import (
	"fmt"
	"os"
	"runtime"
	"sort"
	"strings"
	"testing"
	"testing/synctest"
	"time"

	"cqlsim/choice"
	"cqlsim/simnet"
	"cqlsim/simrt"
	"cqlsim/world"
)

// Result is what one simulated run reports.
type Result struct {
	Prop       string            `json:"prop"`
	Seed       uint64            `json:"seed"`
	Tier       string            `json:"tier"`
	Steps      int64             `json:"steps"`
	SimTimeMs  int64             `json:"sim_ms"`
	Choices    int               `json:"choices"`
	ChoiceHash string            `json:"choice_hash"`
	LogHash    string            `json:"log_hash"`
	SwitchHash string            `json:"switch_hash"`
	Switches   int64             `json:"switches"`
	Edges      []uint64          `json:"edges,omitempty"`
	Stats      map[string]int    `json:"stats"`
	Violations []world.Violation `json:"violations,omitempty"`
	Sample     string            `json:"sample,omitempty"`
	Shape      string            `json:"shape,omitempty"` // what made this run distinct/non-trivial
	Nontrivial bool              `json:"nontrivial"`
	Infra      string            `json:"infra,omitempty"` // harness trouble (never a verdict)
	Prelude    bool              `json:"prelude,omitempty"`
	Shard      int               `json:"shard,omitempty"`
	Log        []string          `json:"-"`
	ChoiceVals []int             `json:"-"`
	Labels     []choice.Rec      `json:"-"`
	WallMs     int64             `json:"wall_ms"`
}

// Env is handed to a scenario.
type Env struct {
	T        *testing.T
	C        *choice.Stream
	S        *simrt.Sched
	N        *simnet.Net
	Tier     string
	Seed     uint64
	Keep     bool
	Res      *Result
	W        *world.World
	StepCap  int64
	raceOnly bool
}

type Scenario func(e *Env)

var Scenarios = map[string]Scenario{}

// Preludes run once per worker process before the seeded runs, outside any simulation: finite
// sequential sweeps that need no scheduler. shard selects the slice of the space this process covers.
var Preludes = map[string]func(tier string, shard int) *Result{}

// progress is read by the real-time watchdog (outside any bubble).
var curSched *simrt.Sched

// RunOne executes one simulated run of prop in its own synctest bubble.
func RunOne(t *testing.T, prop string, seed uint64, replay []int, tier string, keep bool) *Result {
	return RunOneCapped(t, prop, seed, replay, tier, keep, 0)
}

// RunOneCapped is RunOne with a bound on scheduler steps (used while shrinking, where a
// mutilated choice list can produce pathologically long runs).
func RunOneCapped(t *testing.T, prop string, seed uint64, replay []int, tier string, keep bool, stepCap int64) *Result {
	sc := Scenarios[prop]
	if sc == nil {
		return &Result{Prop: prop, Seed: seed, Infra: "unknown property " + prop}
	}
	res := &Result{Prop: prop, Seed: seed, Tier: tier, Stats: map[string]int{}}
	t0 := time.Now()
	func() {
		defer func() {
			if r := recover(); r != nil {
				msg := fmt.Sprint(r)
				if strings.Contains(msg, "deadlock: main bubble goroutine has exited") || strings.Contains(msg, "blocked goroutines remain") {
					res.Stats["bubble.leaked"]++
					return
				}
				res.Infra = "harness panic: " + msg + "\n" + stack()
			}
		}()
		runBubble := func(t *testing.T, f func(t *testing.T)) {
			if raceBuild {
				// the testing package fails (FailNow) a test in which the race detector fired: keep that
				// inside a subtest so that the worker loop goes on
				t.Run("run", func(st *testing.T) { synctest.Test(st, f) })
				return
			}
			synctest.Test(t, f)
		}
		runBubble(t, func(t *testing.T) {
			// a panic of the harness itself is infrastructure trouble, never a verdict (and must not kill the worker)
			defer func() {
				if r := recover(); r != nil {
					res.Infra = "harness panic: " + fmt.Sprint(r) + "\n" + stack()
				}
			}()
			var cs *choice.Stream
			if replay != nil {
				cs = choice.NewReplay(replay)
			} else {
				cs = choice.NewSeeded(seed)
			}
			s := simrt.New(cs)
			curSched = s
			n := simnet.New()
			simnet.Install(n)
			simrt.ResetPtrOrder()
			simrt.ResetGlobals()
			e := &Env{T: t, C: cs, S: s, N: n, Tier: tier, Seed: seed, Keep: keep, Res: res, StepCap: stepCap}
			defer func() {
				if e.W != nil {
					e.W.Teardown()
					w := e.W
					res.Steps = s.Steps
					res.SimTimeMs = w.Now().Milliseconds()
					res.LogHash = fmt.Sprintf("%016x", w.LogHash())
					if p := os.Getenv("SIM_CHOICELOG"); p != "" { // debugging aid: the labelled choice sequence of the run
						var sb strings.Builder
						for i, r := range cs.Log {
							fmt.Fprintf(&sb, "%d %s %d/%d\n", i, r.Label, r.V, r.N)
						}
						_ = os.WriteFile(fmt.Sprintf("%s.%d", p, seed), []byte(sb.String()), 0o644)
					}
					res.SwitchHash = fmt.Sprintf("%016x", w.SwitchHash())
					res.Switches = w.Switches
					res.Edges = w.Edges()
					res.Violations = w.Violations
					for k, v := range w.Stats {
						res.Stats[k] += v
					}
					res.Stats["net.dials"] += n.Stats.Dials
					res.Stats["net.resets"] += n.Stats.Resets
					res.Stats["net.fragments"] += n.Stats.Fragments
					res.Stats["net.deliveries"] += n.Stats.Deliveries
					res.Log = w.Log
					for k, v := range res.Stats {
						if v > 0 && (strings.HasPrefix(k, "fault.") || strings.HasPrefix(k, "backend.err.") || strings.HasPrefix(k, "probe.") ||
							k == "backend.silent_drop" || k == "backend.drop_now" || k == "backend.unprepared") {
							res.Nontrivial = true
						}
					}
				} else {
					s.KillAll()
				}
				finishRace(e, res)
				res.Choices = cs.Len()
				res.ChoiceHash = fmt.Sprintf("%016x", cs.Hash())
				res.ChoiceVals = cs.Values()
				res.Labels = cs.Log
				simnet.Uninstall(n)
				s.Release()
				curSched = nil
			}()
			sc(e)
		})
	}()
	res.WallMs = time.Since(t0).Milliseconds()
	return res
}

func stack() string {
	buf := make([]byte, 1<<16)
	return string(buf[:runtime.Stack(buf, false)])
}

func sortedKeys(m map[string]int) []string {
	k := make([]string, 0, len(m))
	for x := range m {
		k = append(k, x)
	}
	sort.Strings(k)
	return k
}

func envInt(name string, def int) int {
	if v := os.Getenv(name); v != "" {
		var x int
		if _, err := fmt.Sscan(v, &x); err == nil {
			return x
		}
	}
	return def
}
