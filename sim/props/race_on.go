//go:build race

package props

import (
	"fmt"
	"os"
	"runtime"
	"sort"
	"strings"
)

const raceBuild = true

var (
	raceSeen   int
	raceOffset int64
)

// raceReports returns the signatures (pairs of cql-proxy access sites) of the data races the
// detector reported since the last call. Reports whose both sides lie outside cql-proxy
// (harness code) are ignored.
func raceReports() (sigs []string, details []string) {
	n := runtime.RaceErrors()
	if n == raceSeen {
		return nil, nil
	}
	raceSeen = n
	path := os.Getenv("SIM_RACE_LOG")
	if path == "" {
		return []string{"race: (no SIM_RACE_LOG to read the report from)"}, []string{""}
	}
	path = fmt.Sprintf("%s.%d", path, os.Getpid())
	b, err := os.ReadFile(path)
	if err != nil || int64(len(b)) <= raceOffset {
		return nil, nil
	}
	text := string(b[raceOffset:])
	raceOffset = int64(len(b))
	for _, rep := range strings.Split(text, "==================") {
		if !strings.Contains(rep, "DATA RACE") {
			continue
		}
		// the two access blocks come first; goroutine-creation blocks follow
		var sites []string
		harness := false
		for _, blk := range strings.Split(rep, "\n\n") {
			lines := strings.Split(strings.TrimSpace(blk), "\n")
			start := -1
			for i, l := range lines {
				t := strings.TrimSpace(l)
				if strings.HasPrefix(t, "Write at") || strings.HasPrefix(t, "Read at") || strings.HasPrefix(t, "Previous write at") || strings.HasPrefix(t, "Previous read at") {
					start = i + 1
					break
				}
			}
			if start < 0 {
				continue
			}
			// innermost frame that is neither runtime nor standard library decides whose access this is
			site := ""
			for _, l := range lines[start:] {
				t := strings.TrimSpace(l)
				if t == "" || strings.HasPrefix(t, "/") {
					continue
				}
				if strings.HasPrefix(t, "cqlsim/") {
					harness = true
					break
				}
				if strings.HasPrefix(t, "github.com/datastax/cql-proxy/") {
					site = strings.TrimPrefix(t, "github.com/datastax/cql-proxy/")
					if i := strings.LastIndex(site, "("); i > 0 {
						site = site[:i]
					}
					break
				}
				if strings.Contains(strings.SplitN(t, "(", 2)[0], ".") && strings.Contains(strings.SplitN(t, "/", 2)[0], ".") {
					// third-party module (domain-qualified path): treat as part of the SUT's call chain, keep looking outward
					continue
				}
			}
			sites = append(sites, site)
		}
		if harness {
			continue
		}
		var sut []string
		for _, s := range sites {
			if s != "" {
				sut = append(sut, s)
			}
		}
		if len(sut) == 0 {
			continue
		}
		for len(sites) < 2 {
			sites = append(sites, "")
		}
		pair := []string{sites[0], sites[1]}
		for i := range pair {
			if pair[i] == "" {
				pair[i] = "(outside cql-proxy)"
			}
		}
		sort.Strings(pair)
		sigs = append(sigs, "race: "+pair[0]+" | "+pair[1])
		if len(rep) > 6000 {
			rep = rep[:6000]
		}
		details = append(details, strings.TrimSpace(rep))
	}
	return sigs, details
}
