package props

import (
	"fmt"
	"time"

	"cqlsim/world"

	"github.com/datastax/go-cassandra-native-protocol/frame"
	"github.com/datastax/go-cassandra-native-protocol/message"
	"github.com/datastax/go-cassandra-native-protocol/primitive"
)

func init() { Scenarios["C14"] = c14 }

type emitted struct {
	id      string // unique keyspace name carried by the event
	msg     *message.SchemaChangeEvent
	seq     uint64 // event sequence number at emission
	conn    *world.BackendConn
	endOff  int64 // stream offset (towards the proxy) of the end of the event frame
	arrived bool  // the proxy read the whole frame
}

type c14client struct {
	cl        *world.Client
	regSent   map[*world.ClientReq]bool // REGISTER requests that include SCHEMA_CHANGE
	regAt     uint64                    // seq of the first answered schema REGISTER (0 = none)
	regTried  uint64                    // seq at which the first schema REGISTER was sent (0 = never)
	leftAt    uint64
	got       map[string]int
	otherEvts int
}

// C14 — schema-change events reach every registered client exactly once, and only those.
func c14(e *Env) {
	c := e.C
	cfg := swarmWorld(e)
	cfg.WClock = 0
	cfg.Hosts = 1 + c.Choose("hosts", 3)
	cfg.NumConns = 1
	// some runs: one registered client stops reading at some point (its socket and its short write
	// queue - tuning knob - fill up) and goes away seconds later; the others are prompt throughout
	nonReader := c.Choose("c14-non-reader", 4) == 3
	if nonReader {
		cfg.MaxMessages = 1 + c.Choose("c14-maxmessages", 3)
	}
	var rude *c14client
	w, pi := boot(e, cfg)
	if pi.BootErr != nil || pi.Listener == nil {
		if !w.Stopped() {
			e.Res.Infra = "proxy did not boot: " + errStr(pi.BootErr)
		}
		return
	}
	if c.Choose("mixed-versions", 3) == 2 {
		// a node that speaks only protocol v3 joins the v4 cluster: when the control connection
		// fails over, the proxy may try it, be negotiated down, and has to give that connection
		// up (it cannot use another version than the one its sessions use)
		n := w.AddNode(true)
		n.MaxVersion = primitive.ProtocolVersion3
		n.Joined = true
		w.EmitEvent(&message.TopologyChangeEvent{ChangeType: primitive.TopologyChangeTypeNewNode, Address: &primitive.Inet{Addr: n.IP, Port: 9042}})
		w.RunUntil(func() bool { return false }, 15*time.Second)
		e.Res.Stats["probe.c14.older_node_in_cluster"]++
		// the control connection is lost a few times in a row, so that the fail-over rotation passes
		// over the older node
		for k := 0; k < len(w.Nodes)+c.Choose("mixed-kills", 2) && !w.Stopped(); k++ {
			for _, cc := range append([]*world.BackendConn(nil), w.ControlConns...) {
				if cc.Registered && cc.Node.MaxVersion != primitive.ProtocolVersion3 {
					cc.Reset("fault: control connection killed (rotation over the older node)")
				}
			}
			w.RunUntil(func() bool {
				for _, cc := range w.ControlConns {
					if !cc.Closed && cc.Registered && cc.Node.MaxVersion != primitive.ProtocolVersion3 {
						return true
					}
				}
				return false
			}, 3*time.Minute)
			w.RunUntil(func() bool { return false }, 2*time.Second)
		}
	}
	var cls []*c14client
	var events []*emitted
	evCtr := 0
	connect := func() {
		v := []primitive.ProtocolVersion{primitive.ProtocolVersion4, primitive.ProtocolVersion4, primitive.ProtocolVersion3}[c.Choose("cver", 3)]
		cl := w.ConnectClient(pi, v)
		comp := []string{"", "", "lz4"}[c.Choose("ccomp", 3)]
		opts := map[string]string{"CQL_VERSION": "3.0.0"}
		if comp != "" {
			opts["COMPRESSION"] = comp
			cl.Compression = comp
		}
		cl.Send("startup", "", &message.Startup{Options: opts}, nil)
		cc := &c14client{cl: cl, regSent: map[*world.ClientReq]bool{}, got: map[string]int{}}
		cls = append(cls, cc)
		if c.Choose("regatconnect", 2) == 1 {
			r := cl.Send("register", "", &message.Register{EventTypes: []primitive.EventType{primitive.EventTypeSchemaChange, primitive.EventTypeTopologyChange}}, nil)
			cc.regSent[r] = true
			cc.regTried = r.SentSeq
		}
	}
	byClient := func(cl *world.Client) *c14client {
		for _, x := range cls {
			if x.cl == cl {
				return x
			}
		}
		return nil
	}
	w.OnReply = func(req *world.ClientReq, rep *world.ClientReply) {
		cc := byClient(req.Client)
		if cc != nil && cc.regSent[req] && rep.Frame != nil {
			if _, ok := rep.Frame.Body.Message.(*message.Ready); ok && cc.regAt == 0 {
				cc.regAt = rep.Seq
			}
		}
	}
	w.OnClientEvent = func(cl *world.Client, frm *frame.Frame) {
		cc := byClient(cl)
		if frm.Header.StreamId != -1 {
			w.Violate("c14-stream", "event-not-on-stream-minus-one", fmt.Sprintf("%s received an EVENT frame on stream %d", cl, frm.Header.StreamId))
			return
		}
		sc, ok := frm.Body.Message.(*message.SchemaChangeEvent)
		if !ok {
			w.Violate("c14-kind", "non-schema-event-forwarded", fmt.Sprintf("%s received %v: topology and status events must never be forwarded", cl, frm.Body.Message))
			return
		}
		cc.got[sc.Keyspace]++
		if cc.got[sc.Keyspace] > 1 {
			w.Violate("c14-count", "schema-event-delivered-twice", fmt.Sprintf("%s received the schema event for %s %d times", cl, sc.Keyspace, cc.got[sc.Keyspace]))
			return
		}
		if cc.regTried == 0 {
			w.Violate("c14-count", "schema-event-to-unregistered-client", fmt.Sprintf("%s never registered for SCHEMA_CHANGE but received %v", cl, sc))
			return
		}
		for _, ev := range events {
			if ev.id == sc.Keyspace {
				if sc.ChangeType != ev.msg.ChangeType || sc.Target != ev.msg.Target || sc.Object != ev.msg.Object || fmt.Sprint(sc.Arguments) != fmt.Sprint(ev.msg.Arguments) {
					w.Violate("c14-content", "schema-event-content-changed", fmt.Sprintf("%s received %v, the backend emitted %v", cl, sc, ev.msg))
				}
				return
			}
		}
		w.Violate("c14-content", "schema-event-never-emitted", fmt.Sprintf("%s received %v which no backend emitted", cl, sc))
	}
	for i := 0; i < 1+c.Choose("clients", 4); i++ {
		connect()
	}
	nOps := 10 + c.Choose("c14ops", 40)
	failovers := 0
	opsDone := 0
	w.Workload = func() int {
		if opsDone >= nOps {
			return 0
		}
		return 1
	}
	w.DoWork = func(int) {
		opsDone++
		//                          reg emitS emitOther disconnect connect killctl query
		if nonReader && rude == nil && opsDone > 3 && c.Choose("stops-reading-now", 6) == 5 {
			for _, cc := range cls {
				if cc.cl.Connected() && cc.regTried != 0 {
					rude = cc
					cc.cl.StopReading(32 + c.Choose("c14-sndbuf", 200))
					e.Res.Stats["probe.c14.registered_client_stopped_reading"]++
					break
				}
			}
		}
		switch c.Weighted("c14op", []int{4, 12, 3, 2, 2, 1, 4}) {
		case 0:
			cc := cls[c.Choose("who", len(cls))]
			if !cc.cl.Connected() {
				return
			}
			types := []primitive.EventType{}
			mask := c.Choose("regmask", 8)
			if mask&1 != 0 {
				types = append(types, primitive.EventTypeSchemaChange)
			}
			if mask&2 != 0 {
				types = append(types, primitive.EventTypeTopologyChange)
			}
			if mask&4 != 0 {
				types = append(types, primitive.EventTypeStatusChange)
			}
			if len(types) == 0 {
				types = append(types, primitive.EventTypeStatusChange)
			}
			r := cc.cl.Send("register", "", &message.Register{EventTypes: types}, nil)
			if mask&1 != 0 {
				cc.regSent[r] = true
				if cc.regTried == 0 {
					cc.regTried = r.SentSeq
				}
			}
		case 1:
			if len(w.ControlConns) == 0 {
				return
			}
			evCtr++
			id := fmt.Sprintf("ks_ev%d", evCtr)
			msg := &message.SchemaChangeEvent{ChangeType: []primitive.SchemaChangeType{primitive.SchemaChangeTypeCreated, primitive.SchemaChangeTypeUpdated, primitive.SchemaChangeTypeDropped}[c.Choose("sct", 3)], Keyspace: id}
			switch c.Choose("target", 5) {
			case 0:
				msg.Target = primitive.SchemaChangeTargetKeyspace
			case 1:
				msg.Target, msg.Object = primitive.SchemaChangeTargetTable, "tbl"
			case 2:
				msg.Target, msg.Object = primitive.SchemaChangeTargetType, "typ"
			case 3:
				msg.Target, msg.Object, msg.Arguments = primitive.SchemaChangeTargetFunction, "fn", []string{"int", "text"}
			case 4:
				msg.Target, msg.Object, msg.Arguments = primitive.SchemaChangeTargetAggregate, "agg", []string{"int"}
			}
			cc := w.ControlConns[len(w.ControlConns)-1]
			if cc.Closed || !cc.Registered {
				return
			}
			// every node announces a schema change to the connections registered with it: should the
			// proxy hold more than one registered connection, it hears the change more than once
			for _, other := range w.ControlConns[:len(w.ControlConns)-1] {
				if !other.Closed && other.Registered {
					// (a v3 connection cannot carry FUNCTION / AGGREGATE targets: such a node says nothing)
					if raw, err := world.TryEncodeFrame(other.Compression, frame.NewFrame(other.Version, -1, msg)); err == nil {
						other.Link.PeerWrite(raw)
						w.Stat("probe.c14.event_on_second_registered_connection")
					}
				}
			}
			fr := frame.NewFrame(cc.Version, -1, msg)
			ev := &emitted{id: id, msg: msg, conn: cc}
			cc.Link.PeerWrite(encodeRef(cc.Compression, fr))
			ev.endOff = cc.Link.WrittenToSUT()
			w.Logf("backend %s: EVENT %v", cc, msg)
			ev.seq = w.Seq()
			events = append(events, ev)
			w.Stat("probe.c14.schema_events_emitted")
		case 2:
			ip := w.Nodes[c.Choose("evnode", len(w.Nodes))].IP
			if c.Choose("toporstatus", 2) == 0 {
				w.EmitEvent(&message.TopologyChangeEvent{ChangeType: primitive.TopologyChangeTypeNewNode, Address: &primitive.Inet{Addr: ip, Port: 9042}})
			} else {
				w.EmitEvent(&message.StatusChangeEvent{ChangeType: []primitive.StatusChangeType{primitive.StatusChangeTypeUp, primitive.StatusChangeTypeDown}[c.Choose("updown", 2)], Address: &primitive.Inet{Addr: ip, Port: 9042}})
			}
			w.Stat("probe.c14.other_events_emitted")
		case 3:
			live := 0
			for _, cc := range cls {
				if cc.cl.Connected() {
					live++
				}
			}
			if live > 1 {
				cc := cls[c.Choose("who", len(cls))]
				if cc.cl.Connected() {
					cc.leftAt = w.Seq()
					if c.Choose("howleave", 2) == 0 {
						cc.cl.Disconnect()
					} else {
						cc.cl.Abort()
					}
					w.Stat("fault.client-disconnect")
				}
			}
		case 4:
			if len(cls) < 6 {
				connect()
			}
		case 5:
			if failovers < 3 && len(w.ControlConns) > 0 {
				failovers++
				for _, cc := range append([]*world.BackendConn(nil), w.ControlConns...) {
					cc.Reset("fault: control connection killed")
				}
				w.Stat("fault.control-connection-kill")
			}
		case 6:
			cc := cls[c.Choose("who", len(cls))]
			if cc.cl.Connected() {
				tok := w.NewToken()
				cc.cl.Send("query", tok, world.QueryMsg("SELECT * FROM ks.t WHERE k = '"+tok+"'", primitive.ConsistencyLevelOne), nil)
			}
		}
	}
	w.RunUntil(func() bool { return opsDone >= nOps }, time.Hour)
	w.Workload = nil
	if rude != nil && rude.cl.Connected() {
		// the client that does not read stays for a few seconds more and then goes away: whatever
		// waited behind it is delivered now, to everybody who is entitled to it, once
		w.RunUntil(func() bool { return false }, time.Duration(1+c.Choose("c14-rude-stays", 8))*time.Second)
		rude.leftAt = w.Seq()
		rude.cl.Abort()
		e.Res.Stats["probe.c14.non_reading_client_left"]++
	}
	// drain: everything in flight is delivered; the control connection comes back
	w.RunUntil(func() bool { return false }, 2*time.Minute)
	w.Quiesce()
	if w.Stopped() {
		return
	}
	// "still connected" is the client's decision: a client that did not leave must not have been
	// disconnected by the proxy (it sends only well-formed frames)
	for _, cc := range cls {
		if !cc.cl.Gone && !cc.cl.Connected() {
			w.Violate("c14-connection", "client-connection-closed-by-proxy", fmt.Sprintf("%s (%s) did not disconnect, but the proxy closed its connection (events received so far: %d)", cc.cl, cc.cl.Version, len(cc.got)))
			return
		}
	}
	must, may := 0, 0
	for _, ev := range events {
		ev.arrived = !ev.conn.Link.IsReset() && ev.conn.Link.ConsumedBySUT() >= ev.endOff || ev.conn.Link.ConsumedBySUT() >= ev.endOff
		for _, cc := range cls {
			n := cc.got[ev.id]
			switch {
			case !cc.cl.Connected() || cc.cl.Gone:
				// a client that left is not a delivery target; whatever it got before is fine (never two: checked online)
			case !ev.arrived:
				if n != 0 {
					w.Violate("c14-count", "schema-event-without-source", fmt.Sprintf("%s received event %s which the proxy never read", cc.cl, ev.id))
					return
				}
			case cc.regAt != 0 && cc.regAt < ev.seq:
				must++
				if n != 1 {
					w.Violate("c14-count", "schema-event-missing", fmt.Sprintf("%s registered for SCHEMA_CHANGE (READY at event #%d) before event %s was emitted (event #%d) and is still connected, but received it %d times", cc.cl, cc.regAt, ev.id, ev.seq, n))
					return
				}
			default:
				may++
			}
		}
	}
	e.Res.Stats["oracle.c14.must_deliveries_checked"] += must
	e.Res.Stats["probe.c14.window_deliveries"] += may
	e.Res.Stats["probe.c14.failovers"] += failovers
	e.Res.Sample = fmt.Sprintf("hosts=%d clients=%d ops=%d schema-events=%d failovers=%d must-deliver=%d", cfg.Hosts, len(cls), nOps, len(events), failovers, must)
	e.Res.Shape = fmt.Sprintf("h%d cl%d ev%d f%d", cfg.Hosts, len(cls), len(events), failovers)
	if must > 0 {
		e.Res.Nontrivial = true
	}
}

func encodeRef(compression string, frm *frame.Frame) []byte {
	return world.EncodeFrame(compression, frm)
}
