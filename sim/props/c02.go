package props

import (
	"fmt"
	"time"

	"cqlsim/world"

	"github.com/datastax/go-cassandra-native-protocol/message"
	"github.com/datastax/go-cassandra-native-protocol/primitive"
)

func init() { Scenarios["C02"] = c02 }

// C02 — a response is delivered only to the request (stream, client) that caused it.
// Clients deliberately use equal, immediately reused stream ids; backends answer in an order
// and with delays chosen by the scheduler; the "exhaust" shape keeps more than 2048 requests
// outstanding towards one backend connection so that every backend stream id is in use and
// recycled. Every reply that carries a token (result rows, prepared ids, backend errors) must
// carry the token of the request that this client sent on that stream.
func c02(e *Env) {
	c := e.C
	cfg := swarmWorld(e)
	shape := c.Choose("c02shape", 8)
	p := fwdParams{
		SystemPrepares: true,
		Hosts:          1 + c.Choose("hosts", 3),
		NumConns:       1 + c.Choose("numconns", 2),
		Clients:        2 + c.Choose("clients", 3),
		OpsPerClient:   20 + c.Choose("ops", 60),
		MaxInflight:    1 + c.Choose("inflight", 24),
		ErrPerMille:    []int{0, 250}[c.Choose("errrate", 2)],
		Faults:         0,
		Kinds:          []int{50, 8, 25, 10, 3, 2, 0, 0, 1, 2},
		Compression:    []string{"", "", "lz4", "snappy"},
		Versions:       []primitive.ProtocolVersion{primitive.ProtocolVersion4, primitive.ProtocolVersion3},
		LowestFree:     true,
		CheckTokens:    true,
		FaultFree:      true,
	}
	name := "mixed"
	switch {
	case shape == 0 || (e.Tier == "thorough" && shape <= 1):
		// stream exhaustion: > 2048 outstanding on one backend connection
		name = "exhaust"
		p.Hosts, p.NumConns = 1, 1
		p.Clients = 1 + c.Choose("xclients", 2)
		p.OpsPerClient = (2100 + c.Choose("xops", 400)) / p.Clients
		p.MaxInflight = 100000
		p.HoldReplies = true
		p.ErrPerMille = 0
		p.Kinds = []int{90, 0, 0, 0, 0, 0, 0, 0, 0, 0}
		p.Compression = []string{""}
		cfg.MaxSteps = 3000000
	case shape == 2:
		// replies cross retries and connection drops
		name = "drops"
		p.FaultFree = false
		p.Faults = 3
		p.ErrPerMille = 400
	case shape == 3:
		name = "held"
		p.HoldReplies = true
		p.MaxInflight = 64
	case shape == 4 || shape == 5:
		// a node stops answering for a while and then answers everything late, while the
		// proxy's own heartbeats time out and few stream ids are left (tuning knob: stream ids
		// per backend connection), so that ids are reused while late answers are still to come
		name = "late"
		cfg.MaxStreams = int16(3 + c.Choose("maxstreams", 6))
		p.Hosts, p.NumConns = 1+c.Choose("lhosts", 2), 1
		p.Clients = 1 + c.Choose("lclients", 2)
		p.OpsPerClient, p.MaxInflight = 100000, 100000
		p.ErrPerMille = 0
		p.Kinds = []int{80, 4, 10, 6, 0, 3}
	}
	f := newFwd(e, p, cfg)
	if !f.bootOK() || !f.connectClients() {
		return
	}
	if name == "exhaust" && c.Choose("heartbeat-outstanding", 2) == 1 {
		// the proxy's own heartbeat is in flight (the node is slow to answer it) while the
		// clients' requests use up every stream id of the connection
		// (the node reads nothing until the workload has been sent; then it resumes or dies)
		f.w.Nodes[0].Stalled = true
		f.w.RunUntil(func() bool { return false }, cfg.Heartbeat+time.Second)
		e.Res.Stats["probe.c02.heartbeat_outstanding_during_exhaustion"]++
		if f.w.Stopped() {
			return
		}
	}
	if name == "late" && c.Choose("late-errors", 2) == 1 {
		// a third of the requests are answered with an error that is simply passed on to the client
		// (what the proxy does with the stream id of such an answer is exercised like any other)
		f.scriptFn = func(tok string, v primitive.ProtocolVersion) []world.OutcomeSpec {
			if c.Choose("late-error?", 3) != 2 {
				return nil
			}
			errs := []world.Outcome{
				world.ErrOutcome("invalid", &message.Invalid{ErrorMessage: "invalid query"}),
				world.ErrOutcome("syntax", &message.SyntaxError{ErrorMessage: "syntax"}),
				world.ErrOutcome("unauthorized", &message.Unauthorized{ErrorMessage: "unauthorized"}),
				world.ErrOutcome("already_exists", &message.AlreadyExists{ErrorMessage: "exists", Keyspace: "ks", Table: "t"}),
			}
			o := errs[c.Choose("late-error-kind", len(errs))]
			f.w.Script[tok] = []world.Outcome{o}
			return []world.OutcomeSpec{{Outcome: o, Class: world.ClsFinal}}
		}
		e.Res.Stats["probe.c02.late.with_error_answers"]++
	}
	if name == "late" {
		c02Late(e, f, int(cfg.MaxStreams))
		e.Res.Sample = "shape=" + name + " " + f.sample()
		e.Res.Shape = fmt.Sprintf("%s h%d cl%d m%d", name, p.Hosts, p.Clients, cfg.MaxStreams)
		e.Res.Stats["probe.c02.shape."+name]++
		return
	}
	drained := f.runWorkload(10 * time.Minute)
	e.Res.Sample = "shape=" + name + " " + f.sample()
	e.Res.Shape = fmt.Sprintf("%s h%d c%d cl%d", name, p.Hosts, p.NumConns, p.Clients)
	e.Res.Stats["probe.c02.shape."+name]++
	if f.w.Stopped() {
		return
	}
	if !f.clientsStillOpen("c02-connection") {
		return
	}
	if f.w.Stats["backend.streams_high_water"] >= 2048 {
		e.Res.Stats["probe.c02.all_backend_streams_in_use"]++
	}
	_ = drained
}

// c02Late: phases instead of a free-running workload. (A) a little traffic; (B) one node stalls
// and more requests are sent, so that some of its stream ids are held by unanswered requests;
// (C) simulated time passes - 0 to 75 s, i.e. before, between and after the proxy's heartbeat
// (30 s), the heartbeat's time-out (10 s later) and the idle time-out (60 s) - (D) more
// requests are sent, reusing whatever stream ids are free; (E) the node answers everything it
// has read, late and in order, or dies. Every answer must still reach its own request.
func c02Late(e *Env, f *fwd, m int) {
	c, w := e.C, f.w
	w.OnReply = f.onReply
	w.OnAttempt = f.onAttempt
	left := 0
	var en []int
	w.Workload = func() int {
		if left <= 0 {
			return 0
		}
		en = f.enabledClients()
		return len(en)
	}
	w.DoWork = func(i int) { f.sendOne(en[i]); left-- }
	send := func(n int) bool {
		left = n
		return w.RunUntil(func() bool { return left <= 0 || len(f.enabledClients()) == 0 }, time.Hour)
	}
	if !send(2+c.Choose("lateA", 8)) || !w.RunUntil(f.allAnswered, 5*time.Minute) {
		return
	}
	n := w.Nodes[c.Choose("latenode", len(w.Nodes))]
	n.Stalled = true
	w.Logf("node %s: stall begins", n)
	if !send(c.Choose("lateB", m+3)) {
		return
	}
	if len(f.clients) > 1 && c.Choose("late-client-leaves", 3) == 2 {
		// one client goes away while its requests are unanswered at the silent node: their answers,
		// when they come, belong to nobody - in particular not to whoever uses the stream ids next
		for _, cl := range f.clients {
			if cl.Connected() && len(cl.Outstanding) > 0 {
				cl.Disconnect()
				e.Res.Stats["probe.c02.late.client_left_with_requests_outstanding"]++
				break
			}
		}
	}
	wait := []time.Duration{0, 5 * time.Second, 25 * time.Second, 32 * time.Second, 41 * time.Second, 45 * time.Second, 55 * time.Second, 62 * time.Second, 75 * time.Second}[c.Choose("latewait", 9)]
	target := w.Now() + wait
	w.RunUntil(func() bool { return w.Now() >= target }, wait+time.Second)
	if w.Stopped() {
		return
	}
	if !send(c.Choose("lateD", 2*m+3)) {
		return
	}
	w.Quiesce()
	if c.Choose("lateend", 4) == 3 {
		n.Crash()
		n.Stalled = false
		if len(f.liveNodes()) == 0 {
			n.Restart()
		}
	} else {
		n.Unstall()
	}
	w.Workload = nil
	if w.RunUntil(f.allAnswered, 10*time.Minute) {
		e.Res.Stats["probe.c02.late.drained"]++
	}
	if w.Stats["backend.stalled_frame"] > 0 {
		e.Res.Stats["probe.c02.late.frames_read_late"]++
	}
}
