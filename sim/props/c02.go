package props

import (
	"fmt"
	"time"

	"github.com/datastax/go-cassandra-native-protocol/primitive"
)

func init() { Scenarios["C02"] = c02 }

// C02 — a response is delivered only to the request (stream, client) that caused it.
// Clients deliberately use equal, immediately reused stream ids; backends answer in an order
// and with delays chosen by the scheduler; the "exhaust" shape keeps more than 2048 requests
// outstanding towards one backend connection so that every backend stream id is in use and
// recycled. Every reply that carries a token (result rows, prepared ids, backend errors) must
// carry the token of the request that this client sent on that stream.
func c02(e *Env) {
	c := e.C
	cfg := swarmWorld(e)
	shape := c.Choose("c02shape", 8)
	p := fwdParams{
		Hosts:        1 + c.Choose("hosts", 3),
		NumConns:     1 + c.Choose("numconns", 2),
		Clients:      2 + c.Choose("clients", 3),
		OpsPerClient: 20 + c.Choose("ops", 60),
		MaxInflight:  1 + c.Choose("inflight", 24),
		ErrPerMille:  []int{0, 250}[c.Choose("errrate", 2)],
		Faults:       0,
		Kinds:        []int{50, 8, 25, 10, 3, 2, 0, 0, 1, 2},
		Compression:  []string{"", "", "lz4", "snappy"},
		Versions:     []primitive.ProtocolVersion{primitive.ProtocolVersion4, primitive.ProtocolVersion3},
		LowestFree:   true,
		CheckTokens:  true,
		FaultFree:    true,
	}
	name := "mixed"
	switch {
	case shape == 0 || (e.Tier == "thorough" && shape <= 1):
		// stream exhaustion: > 2048 outstanding on one backend connection
		name = "exhaust"
		p.Hosts, p.NumConns = 1, 1
		p.Clients = 1 + c.Choose("xclients", 2)
		p.OpsPerClient = (2100 + c.Choose("xops", 400)) / p.Clients
		p.MaxInflight = 100000
		p.HoldReplies = true
		p.ErrPerMille = 0
		p.Kinds = []int{90, 0, 0, 0, 0, 0, 0, 0, 0, 0}
		p.Compression = []string{""}
		cfg.MaxSteps = 3000000
	case shape == 2:
		// replies cross retries and connection drops
		name = "drops"
		p.FaultFree = false
		p.Faults = 3
		p.ErrPerMille = 400
	case shape == 3:
		name = "held"
		p.HoldReplies = true
		p.MaxInflight = 64
	}
	f := newFwd(e, p, cfg)
	if !f.bootOK() || !f.connectClients() {
		return
	}
	drained := f.runWorkload(10 * time.Minute)
	e.Res.Sample = "shape=" + name + " " + f.sample()
	e.Res.Shape = fmt.Sprintf("%s h%d c%d cl%d", name, p.Hosts, p.NumConns, p.Clients)
	e.Res.Stats["probe.c02.shape."+name]++
	if f.w.Stopped() {
		return
	}
	if f.w.Stats["backend.streams_high_water"] >= 2048 {
		e.Res.Stats["probe.c02.all_backend_streams_in_use"]++
	}
	_ = drained
}
