package props

import (
	"fmt"
	"strings"
	"time"

	"cqlsim/world"

	"github.com/datastax/go-cassandra-native-protocol/message"
	"github.com/datastax/go-cassandra-native-protocol/primitive"
)

func init() { Scenarios["C07"] = c07 }

type useSpec struct {
	text   string // as sent after "USE "
	norm   string // keyspace as the backend names it (unquoted, case-folded); "" = does not exist
	exists bool
	busy   bool // every node answers the USE with OVERLOADED: it fails, for whatever reason the proxy gives
}

var c07Uses = []useSpec{
	{"ks1", "ks1", true, false},
	{"KS1", "ks1", true, false},
	{"Ks2", "ks2", true, false},
	{`"ks2"`, "ks2", true, false},
	{`"Ks3"`, "Ks3", true, false},
	{"ks3", "", false, false}, // only the quoted mixed-case one exists
	{"nosuch", "", false, false},
	{`"NoSuch"`, "", false, false},
	{"ks4", "ks4", true, false},
	// pairs that differ only in case-sensitivity: two different keyspaces, or one that does not exist
	{`"KS4"`, "KS4", true, false},
	{`"KS1"`, "", false, false},
	// what may follow the name: a terminator, comments
	{"ks2;", "ks2", true, false},
	{"ks1 /* switch */", "ks1", true, false},
	{"ks4 -- back again", "ks4", true, false},
	{"ks2 /* a */ ;", "ks2", true, false},
	// names that spell another session's attributes run together (a compression name followed by
	// another keyspace's name; a version digit in front): whatever identifies a session must keep
	// its parts apart
	{"lz4ks1", "lz4ks1", true, false},
	{"snappyks2", "snappyks2", true, false},
	{"lz4ks4", "", false, false},
	// a keyspace the nodes refuse to switch to for the time being (they shed load)
	{"ks_busy", "", false, true},
}

// C07 — requests run in the client's current keyspace, protocol version and compression.
func c07(e *Env) {
	c := e.C
	cfg := swarmWorld(e)
	cfg.WClock = 0
	p := fwdParams{
		Hosts:       1 + c.Choose("hosts", 3),
		NumConns:    1 + c.Choose("numconns", 2),
		Clients:     2 + c.Choose("clients", 4),
		MaxInflight: 1 + c.Choose("inflight", 4),
		Kinds:       []int{1},
		Compression: []string{"", "lz4", "snappy"},
		Versions:    []primitive.ProtocolVersion{primitive.ProtocolVersion4, primitive.ProtocolVersion3},
		FaultFree:   true,
	}
	f := newFwd(e, p, cfg)
	if !f.bootOK() {
		return
	}
	w := f.w
	for _, n := range w.Nodes {
		n.Keyspaces = map[string]bool{"ks1": true, "ks2": true, "Ks3": true, "ks4": true, "KS4": true, "lz4ks1": true, "snappyks2": true, "system": true}
		n.BusyKeyspaces = map[string]bool{"ks_busy": true}
	}
	refuser := -1
	if len(w.Nodes) > 1 && c.Choose("refuser?", 4) == 3 {
		// one host does not know ks4 (schema disagreement): sessions for it fail on that host
		refuser = c.Choose("refuserwho", len(w.Nodes))
		delete(w.Nodes[refuser].Keyspaces, "ks4")
	}
	if !f.connectClients() {
		return
	}
	type cstate struct {
		ks      string // model: keyspace in force ("" none)
		pending *world.ClientReq
		pendUse useSpec
		stalled bool // a node stopped answering at some time while the pending USE was being decided
		left    int
	}
	var stalledNode *world.Node // a node that answers nothing for a while (some runs)
	var stallUntil time.Duration
	var crashedNode *world.Node // a node that is down for a while (some runs)
	var crashUntil time.Duration
	st := make([]*cstate, len(f.clients))
	slotOf := map[*world.Client]int{}
	for i := range st {
		st[i] = &cstate{left: 10 + c.Choose("c07ops", 30)}
		slotOf[f.clients[i]] = i
	}
	faultsInjected := false // connection losses / stalls: data requests may then legitimately fail
	var dataReqs []*world.ClientReq
	expectKS := map[string]string{} // token -> keyspace the request must run in
	// several clients may be told to switch to the same keyspace in the same window
	rush := -1
	if c.Choose("rush?", 2) == 1 {
		rush = c.Choose("rushks", 5)
	}
	useChecked, failedUses := 0, 0
	servedSlot := map[int]bool{}
	var armedUse *world.ClientReq // the USE for whose new session connections are lost at start-up (some runs)
	armNow := false
	// prepared statements a client may EXECUTE: id and the token of its PREPARE
	type c07prep struct {
		id, rmid []byte
	}
	preps := make([][]c07prep, len(f.clients))
	prepReqs := map[*world.ClientReq]bool{}
	// requests written right behind a USE, before its answer: they run in the keyspace the USE
	// establishes if it succeeds, in the previous one if it fails - known once the USE is answered
	type c07pipe struct {
		use          *world.ClientReq
		oldKS, newKS string
		resolved     bool
		want         string
		attempts     []*world.Attempt
	}
	pipes := map[string]*c07pipe{}
	judgePipe := func(tok string, pi *c07pipe) {
		for _, a := range pi.attempts {
			if a.Keyspace != pi.want {
				w.Violate("c07-keyspace", "request-ran-in-wrong-keyspace", fmt.Sprintf("request %s was written right behind a USE (answered: keyspace in force %q) but arrived on backend connection %s whose keyspace is %q", tok, pi.want, a.Conn, a.Keyspace))
				return
			}
			w.Stat("oracle.c07.pipelined_attempts_checked")
		}
		pi.attempts = nil
	}
	w.OnReply = func(req *world.ClientReq, rep *world.ClientReply) {
		i, known := slotOf[req.Client]
		if !known {
			return // a client that has left
		}
		s := st[i]
		if rep.Frame != nil && req.Kind != "use" && req.Kind != "startup" {
			servedSlot[i] = true // (the session for this slot's version and compression exists)
		}
		if rep.Frame != nil && prepReqs[req] {
			if pr, ok := rep.Frame.Body.Message.(*message.PreparedResult); ok {
				preps[i] = append(preps[i], c07prep{pr.PreparedQueryId, pr.ResultMetadataId})
			}
		}
		if s.pending != req || rep.Frame == nil {
			return
		}
		s.pending = nil
		u := s.pendUse
		if req == armedUse {
			armedUse = nil
			for _, n := range w.Nodes {
				n.DropNewConnsAtStartup = 0
			}
		}
		defer func() {
			_, succeeded := rep.Frame.Body.Message.(*message.SetKeyspaceResult)
			for tok, pi := range pipes {
				if pi.use == req && !pi.resolved {
					pi.resolved, pi.want = true, pi.oldKS
					if succeeded {
						pi.want = pi.newKS
					}
					if !w.Stopped() {
						judgePipe(tok, pi)
					}
				}
			}
		}()
		switch m := rep.Frame.Body.Message.(type) {
		case *message.SetKeyspaceResult:
			if !u.exists {
				w.Violate("c07-use", "use-of-missing-keyspace-succeeded", fmt.Sprintf("%s: USE %s was answered SET_KEYSPACE %q although no backend has that keyspace", req.Client, u.text, m.Keyspace))
				return
			}
			if m.Keyspace != u.norm {
				w.Violate("c07-use", "use-reply-names-wrong-keyspace", fmt.Sprintf("%s: USE %s was answered SET_KEYSPACE %q; the backend names the keyspace %q", req.Client, u.text, m.Keyspace, u.norm))
				return
			}
			s.ks = u.norm
			useChecked++
		case message.Error:
			if s.stalled {
				// A node did not answer while the session for this keyspace was being created: the USE
				// may fail (connect time-out) with the proxy's own error. What the property demands then
				// is that the previous keyspace stays in force, which the following requests show.
				failedUses++
				e.Res.Stats["probe.c07.use_failed_by_timeout"]++
				return
			}
			if u.exists && !(u.norm == "ks4" && refuser >= 0) {
				w.Violate("c07-use", "use-of-existing-keyspace-failed", fmt.Sprintf("%s: USE %s failed with %v although every backend has the keyspace", req.Client, u.text, m))
				return
			}
			if !u.exists && !u.busy && !strings.Contains(m.GetErrorMessage(), "does not exist") {
				w.Violate("c07-use", "use-error-not-the-backends", fmt.Sprintf("%s: USE %s failed with %q; the backend's error is \"Keyspace ... does not exist\"", req.Client, u.text, m.GetErrorMessage()))
				return
			}
			failedUses++
		default:
			w.Violate("c07-use", "use-reply-kind", fmt.Sprintf("%s: USE %s answered with %v", req.Client, u.text, m))
		}
	}
	w.OnAttempt = func(a *world.Attempt) {
		if pi := pipes[a.Token]; pi != nil {
			pi.attempts = append(pi.attempts, a)
			if pi.resolved {
				judgePipe(a.Token, pi)
			}
			return
		}
		want, ok := expectKS[a.Token]
		if !ok {
			return
		}
		var cl *world.Client
		for _, x := range f.clients {
			for _, r := range x.Reqs {
				if r.Token == a.Token {
					cl = x
				}
			}
		}
		if a.OpCode == primitive.OpCodePrepare {
			// a PREPARE the proxy sends on its own account (re-preparation for a later EXECUTE
			// of a client that may have switched keyspace since) runs in the executing client's
			// keyspace; only the client's own PREPARE, still unanswered, is judged here
			own := false
			for _, x := range f.clients {
				for _, r := range x.Outstanding {
					if r.Token == a.Token && prepReqs[r] {
						own = true
					}
				}
			}
			if !own {
				return
			}
		}
		if a.Keyspace != want {
			w.Violate("c07-keyspace", "request-ran-in-wrong-keyspace", fmt.Sprintf("request %s of %s must run in keyspace %q (its last successful USE) but arrived on backend connection %s whose keyspace is %q", a.Token, cl, want, a.Conn, a.Keyspace))
			return
		}
		if cl != nil && (a.Version != cl.Version || a.Conn.Version != cl.Version) {
			w.Violate("c07-version", "request-ran-with-wrong-version", fmt.Sprintf("request %s of %s (%s) arrived as a %s frame on a %s connection", a.Token, cl, cl.Version, a.Version, a.Conn.Version))
			return
		}
		if cl != nil && a.Conn.Compression != cl.Compression {
			w.Violate("c07-compression", "request-ran-with-wrong-compression", fmt.Sprintf("request %s of %s (compression %q) arrived on a backend connection with compression %q", a.Token, cl, cl.Compression, a.Conn.Compression))
			return
		}
		w.Stat("oracle.c07.attempts_checked")
	}
	// some runs lose backend connections in the middle of the history (one node's, or all): the
	// proxy replaces them, and the replacements must be in the keyspace of their session too
	faultAt, opsDone := -1, 0
	var pauseUntil time.Duration
	if c.Choose("c07fault?", 2) == 1 {
		faultAt = 4 + c.Choose("c07faultat", 24)
	}
	// some runs: the cluster grows while the history runs (a node joins, perhaps a second one later);
	// the new node knows the same keyspaces. Sessions that exist, sessions whose USE failed
	// earlier and sessions created afterwards all have to cope.
	joinAt, joins, nodes0 := -1, 0, len(w.Nodes)
	if c.Choose("c07node-joins", 4) == 3 {
		joinAt = 3 + c.Choose("c07joinat", 25)
	}
	enabled := func() []int {
		var out []int
		if w.Now() < pauseUntil {
			return nil // clients pause while the proxy reconnects (back-off timers need the clock)
		}
		for i, cl := range f.clients {
			s := st[i]
			if !cl.Connected() || s.left == 0 || s.pending != nil {
				continue
			}
			if len(cl.Outstanding) >= p.MaxInflight {
				continue
			}
			out = append(out, i)
		}
		return out
	}
	w.OnStep = func() {
		if stalledNode != nil && w.Now() >= stallUntil {
			stalledNode.Unstall()
			stalledNode = nil
		}
		if crashedNode != nil && w.Now() >= crashUntil {
			crashedNode.Restart()
			crashedNode = nil
		}
	}
	var en []int
	w.Workload = func() int { en = enabled(); return len(en) }
	w.DoWork = func(k int) {
		i := en[k]
		cl, s := f.clients[i], st[i]
		opsDone++
		if s.pending == nil && len(cl.Outstanding) == 0 && s.ks != "" && c.Choose("c07leave", 12) == 11 {
			// The client leaves and another one (same version and compression) takes its place:
			// nothing the first one did may affect what the second one gets. It starts with no
			// keyspace and will USE the same ones.
			cl.Disconnect()
			delete(slotOf, cl)
			ncl := w.ConnectClient(f.pi, cl.Version)
			opts := map[string]string{"CQL_VERSION": "3.0.0"}
			if cl.Compression != "" {
				opts["COMPRESSION"] = cl.Compression
				ncl.Compression = cl.Compression
			}
			ncl.Send("startup", "", &message.Startup{Options: opts}, nil)
			f.clients[i] = ncl
			slotOf[ncl] = i
			preps[i] = nil
			s.ks = ""
			e.Res.Stats["probe.c07.client_replaced"]++
			return
		}
		if opsDone == joinAt && len(w.Nodes) < 6 {
			n := w.AddNode(true)
			n.Joined = true
			n.Keyspaces = map[string]bool{}
			for k, v := range w.Nodes[0].Keyspaces {
				n.Keyspaces[k] = v
			}
			n.Keyspaces["ks4"] = true
			n.BusyKeyspaces = map[string]bool{"ks_busy": true}
			w.EmitEvent(&message.TopologyChangeEvent{ChangeType: primitive.TopologyChangeTypeNewNode, Address: &primitive.Inet{Addr: n.IP, Port: 9042}})
			e.Res.Stats["probe.c07.node_joined_mid_history"]++
			joins++
			joinAt = -1
			if joins < 2 && c.Choose("c07joins-again", 2) == 1 {
				joinAt = opsDone + 2 + c.Choose("c07joinat2", 15)
			}
		}
		useInFlight := false
		for _, x := range st {
			if x.pending != nil {
				useInFlight = true
			}
		}
		if opsDone == faultAt && useInFlight {
			// Not while a USE is being decided: the pools of a session that is being created would
			// lose their first connections, which ConnectSession tolerates (it then succeeds without
			// any backend having seen the keyspace) - an observation noted in DESIGN.md section 10,
			// outside what C07 states about fault-free USE.
			faultAt++
		}
		if opsDone == faultAt && stalledNode == nil && c.Choose("c07stall?", 3) == 2 {
			// instead of losing connections: one node answers nothing for a while (new sessions
			// cannot complete their handshake with it and time out), then resumes
			stalledNode = w.Nodes[c.Choose("c07stallnode", len(w.Nodes))]
			stalledNode.Stalled = true
			faultsInjected = true
			stallUntil = w.Now() + time.Duration(11+c.Choose("c07stalllen", 20))*time.Second
			w.Logf("node %s: stall begins", stalledNode)
			e.Res.Stats["probe.c07.node_stalled"]++
			faultAt = -1
		}
		if opsDone == faultAt && crashedNode == nil && nodes0 > 1 && c.Choose("c07crash?", 3) == 2 {
			// or: one node is down for a while (connections refused). Sessions created meanwhile
			// have no connection to it yet; a USE must still be decided by the nodes that are up.
			crashedNode = w.Nodes[c.Choose("c07crashnode", nodes0)] // (one of the nodes the proxy has known from the start: another of them stays up)
			crashedNode.Crash()
			faultsInjected = true
			crashUntil = w.Now() + time.Duration(8+c.Choose("c07crashlen", 40))*time.Second
			e.Res.Stats["probe.c07.node_down_for_a_while"]++
			faultAt = -1
		}
		if opsDone == faultAt {
			nodes := w.Nodes
			if c.Choose("c07faultall", 3) != 0 {
				nodes = []*world.Node{w.Nodes[c.Choose("c07faultnode", len(w.Nodes))]}
			}
			faultsInjected = true
			for _, n := range nodes {
				for _, bc := range n.LiveConns() {
					bc.Reset("fault: backend connections lost in the middle of the history")
				}
			}
			pauseUntil = w.Now() + time.Duration(5+c.Choose("c07pause", 40))*time.Second
			e.Res.Stats["probe.c07.connections_lost_and_replaced"]++
			faultAt = -1
			if c.Choose("c07faultagain", 3) == 2 {
				faultAt = opsDone + 3 + c.Choose("c07faultat2", 10)
			}
		}
		s.left--
		if c.Choose("use?", 4) == 0 && armedUse == nil {
			// (while a USE with an armed connection fault is being decided nobody else creates sessions:
			// the fault is meant for the connections of that one session)
			// a USE: the client waits for its answer before sending anything else
			if len(cl.Outstanding) > 0 && c.Choose("use-while-requests-in-flight", 3) != 2 {
				s.left++
				// most of the time the client does not switch while data requests are in flight: send data instead
			} else {
				if len(cl.Outstanding) > 0 {
					// ... but sometimes it does: what is in flight (and may still be retried) keeps
					// the keyspace it was sent under
					e.Res.Stats["probe.c07.use_while_requests_in_flight"]++
				}
				u := c07Uses[c.Choose("usewhich", len(c07Uses))]
				if rush >= 0 && c.Choose("rushnow", 2) == 1 {
					u = c07Uses[rush]
				}
				text := "USE " + u.text
				if c.Choose("usecase", 3) == 1 {
					text = "use " + u.text
				}
				if c.Choose("uselead?", 5) == 4 {
					// white space in front of the statement means nothing
					text = []string{" ", "\t", "\n", "\r\n", " \r\n\t"}[c.Choose("uselead", 5)] + text
					e.Res.Stats["probe.c07.use_with_leading_white_space"]++
				}
				s.pendUse = u
				s.stalled = stalledNode != nil
				if !u.exists && !u.busy && p.NumConns >= 2 && stalledNode == nil && crashedNode == nil && !useInFlight && len(servedSlot) == len(f.clients) && c.Choose("c07one-new-conn-lost", 3) == 2 {
					armNow = true
					// while the session for a keyspace that does not exist is being connected, every node
					// loses one of the new connections at start-up (a transient failure) and rejects the
					// USE on the other: the rejection is what decides, the USE fails with the backend's error
					for _, n := range w.Nodes {
						n.DropNewConnsAtStartup = 1
					}
					e.Res.Stats["probe.c07.one_new_connection_lost_while_use_is_rejected"]++
				}
				s.pending = cl.Send("use", "", world.QueryMsg(text, primitive.ConsistencyLevelOne), nil)
				if armNow {
					armedUse, armNow = s.pending, false
				}
				if stalledNode == nil && crashedNode == nil && c.Choose("c07pipelined", 3) == 2 {
					// the client does not wait for the answer before its next request
					tok := w.NewToken()
					pipes[tok] = &c07pipe{use: s.pending, oldKS: s.ks, newKS: u.norm}
					stt := world.DrawStmt(c, "'"+tok+"'", "t")
					cl.Send("query", tok, world.QueryMsg(stt.Text, primitive.ConsistencyLevelOne), nil)
					e.Res.Stats["probe.c07.request_written_behind_use"]++
				}
				return
			}
			s.left--
		}
		tok := w.NewToken()
		expectKS[tok] = s.ks
		kind := c.Weighted("c07kind", []int{6, 1, 2, 1})
		if len(preps[i]) == 0 && kind >= 2 {
			kind = 1
		}
		switch kind {
		case 0:
			stt := world.DrawStmt(c, "'"+tok+"'", "t")
			if nodes0 > 1 && c.Choose("c07retried", 4) == 3 { // (nodes the proxy has known from the start: one that has just joined is not usable yet)
				// the first node asks the proxy to go elsewhere: the second attempt is made later, on
				// another host, in the same keyspace as the first
				w.Script[tok] = []world.Outcome{world.ErrOutcome("bootstrapping", &message.IsBootstrapping{ErrorMessage: "bootstrapping"})}
				e.Res.Stats["probe.c07.request_retried_on_next_host"]++
			}
			dataReqs = append(dataReqs, cl.Send("query", tok, world.QueryMsg(stt.Text, primitive.ConsistencyLevelOne), nil))
		case 1:
			// unqualified table: the statement resolves in the connection's keyspace
			r := cl.Send("prepare", tok, &message.Prepare{Query: "SELECT * FROM t_" + tok + " WHERE k = ?"}, nil)
			prepReqs[r] = true
		case 2:
			pp := preps[i][c.Choose("c07prep", len(preps[i]))]
			var rm []byte
			if cl.Version.SupportsResultMetadataId() {
				rm = pp.rmid
			}
			dataReqs = append(dataReqs, cl.Send("execute", tok, world.ExecMsg(pp.id, rm, tok, primitive.ConsistencyLevelOne), nil))
		case 3:
			b := &message.Batch{Type: primitive.BatchTypeLogged, Consistency: primitive.ConsistencyLevelOne}
			for j := 0; j < 1+c.Choose("c07bn", 3); j++ {
				if c.Choose("c07bchild", 2) == 0 {
					b.Children = append(b.Children, &message.BatchChild{Query: "INSERT INTO t (k, v) VALUES ('" + tok + "', 1)"})
				} else {
					pp := preps[i][c.Choose("c07prep", len(preps[i]))]
					b.Children = append(b.Children, &message.BatchChild{Id: pp.id, Values: []*primitive.Value{primitive.NewValue([]byte(tok))}})
				}
			}
			dataReqs = append(dataReqs, cl.Send("batch", tok, b, nil))
		}
	}
	done := func() bool {
		for i, cl := range f.clients {
			if cl.Connected() && (st[i].left > 0 || len(cl.Outstanding) > 0) {
				return false
			}
		}
		return true
	}
	ok := w.RunUntil(done, 30*time.Minute)
	w.Workload = nil
	e.Res.Sample = fmt.Sprintf("hosts=%d conns=%d clients=%d uses-ok=%d uses-failed=%d rush=%d refuser=%d", p.Hosts, p.NumConns, p.Clients, useChecked, failedUses, rush, refuser)
	e.Res.Shape = fmt.Sprintf("h%d c%d cl%d r%d", p.Hosts, p.NumConns, p.Clients, rush)
	if w.Stopped() {
		return
	}
	if !ok {
		for i, cl := range f.clients {
			if cl.Connected() && len(cl.Outstanding) > 0 {
				blocked, _ := blockedReport(e.S)
				w.Violate("c07-drain", "request-not-answered", fmt.Sprintf("%s has %d unanswered requests (pending USE: %v); blocked: [%s]", cl, len(cl.Outstanding), st[i].pending != nil, blocked))
				return
			}
			if !cl.Connected() && !cl.Gone {
				w.Violate("c07-drain", "client-connection-closed-by-proxy", fmt.Sprintf("%s was closed by the proxy", cl))
				return
			}
		}
	}
	if !faultsInjected && refuser < 0 {
		// fault-free history, every node has every keyspace: nothing may fail
		for _, r := range dataReqs {
			if em, isErr := replyMsg(r).(message.Error); isErr {
				w.Violate("c07-served", "request-failed-in-fault-free-history", fmt.Sprintf("%s of %s was answered with %v although no fault was injected and its keyspace exists on every node", r, r.Client, em))
				return
			}
		}
		e.Res.Stats["oracle.c07.fault_free_successes_checked"] += len(dataReqs)
	}
	e.Res.Stats["oracle.c07.use_replies_checked"] += useChecked
	e.Res.Stats["probe.c07.failed_uses"] += failedUses
	if useChecked > 0 || failedUses > 0 {
		e.Res.Nontrivial = true
	}
}
