package props

import (
	"fmt"
	"time"

	"cqlsim/world"

	"github.com/datastax/go-cassandra-native-protocol/primitive"
)

func init() { Scenarios["C01"] = c01 }

// swarmWorld draws the per-run world configuration shared by the forwarding family.
func swarmWorld(e *Env) world.Config {
	c := e.C
	cfg := world.DefaultConfig()
	cfg.WTask = []int{8, 2, 16, 4}[c.Choose("wtask", 4)]
	cfg.WNet = []int{4, 1, 8}[c.Choose("wnet", 3)]
	cfg.WPeer = []int{4, 1, 8}[c.Choose("wpeer", 3)]
	cfg.WWork = []int{2, 1, 6}[c.Choose("wwork", 3)]
	cfg.Sticky = []int{0, 4, 20}[c.Choose("sticky", 3)]
	cfg.FragProb = []int{100, 0, 500}[c.Choose("frag", 3)]
	cfg.WClock = 1
	// one run in four: the backend demands password authentication on every connection
	// (half of those the way a DSE node does: mechanism name, challenge, then the credentials)
	if c.Choose("auth", 4) == 3 {
		cfg.AuthUser, cfg.AuthPass = "cassandra", "s3cret"
		cfg.AuthDSE = c.Choose("authdse", 2) == 1
	}
	// one run in five schedules tasks by PCT priorities instead of uniformly
	cfg.PCT = []int{0, 0, 0, 0, 3}[c.Choose("pct", 5)]
	// sub-millisecond perturbation keeps timers of different connections from tying
	cfg.Heartbeat = 30*time.Second + time.Duration(c.Choose("hbjit", 1000))*time.Microsecond
	return cfg
}

func c01Params(e *Env) fwdParams {
	c := e.C
	p := fwdParams{
		SystemPrepares: true,
		OddPrepares:    true,
		Hosts:          1 + c.Choose("hosts", 4),
		NumConns:       []int{1, 2, 1, 2, 3, 4}[c.Choose("numconns", 6)],
		Clients:        1 + c.Choose("clients", 4),
		OpsPerClient:   5 + c.Choose("ops", 20),
		MaxInflight:    1 + c.Choose("inflight", 8),
		ErrPerMille:    []int{300, 0, 700}[c.Choose("errrate", 3)],
		Faults:         3,
		Kinds:          []int{40, 8, 20, 8, 4, 3, 2, 2, 2, 2, 2, 2},
		Compression:    []string{"", "", "lz4", "snappy"},
		Versions:       []primitive.ProtocolVersion{primitive.ProtocolVersion4, primitive.ProtocolVersion4, primitive.ProtocolVersion3},
		Disconnects:    true,
		DupPrepares:    true,
	}
	if e.Tier == "thorough" {
		p.Clients = 1 + c.Choose("clients2", 6)
		p.OpsPerClient = 5 + c.Choose("ops2", 60)
		p.MaxInflight = 1 + c.Choose("inflight2", 32)
		p.Faults = 5
	}
	return p
}

// C01 — exactly one response per client request, on the request's own stream.
func c01(e *Env) {
	cfg := swarmWorld(e)
	p := c01Params(e)
	// tuning knob: few stream ids per backend connection in some runs, so that "no stream
	// available" (the request moves on to the next host) is reached with tens of requests
	cfg.MaxStreams = []int16{0, 0, 0, 4, 9}[e.C.Choose("maxstreams", 5)]
	// tuning knob: short write queues in some runs, so that a connection whose writer has not run
	// yet (or whose peer reads slowly) has a full queue after a few frames
	cfg.MaxMessages = []int{0, 0, 0, 1, 3}[e.C.Choose("maxmessages", 5)]
	// some results are kilobytes long (whatever the proxy does per write or per buffer full happens)
	cfg.BigRowsPerMille = []int{0, 0, 100, 400}[e.C.Choose("bigrows-rate", 4)]
	f := newFwd(e, p, cfg)
	if !f.bootOK() {
		return
	}
	if !f.connectClients() {
		return
	}
	w := f.w
	drained := f.runWorkload(10 * time.Minute)
	e.Res.Sample = f.sample()
	e.Res.Shape = fmt.Sprintf("h%d c%d cl%d f%v", p.Hosts, p.NumConns, p.Clients, f.fired)
	if cfg.MaxStreams > 0 && w.Stats["backend.streams_high_water"] >= int(cfg.MaxStreams) {
		e.Res.Stats["probe.c01.all_streams_of_a_connection_in_use"]++
	}
	if w.Stopped() {
		return
	}
	// drain oracle: every request of every still-connected client has exactly one reply
	for _, c := range f.clients {
		if c.Gone {
			continue
		}
		if c.Closed || c.Link.IsReset() {
			w.Violate("c01-drain", "client-connection-closed-by-proxy",
				fmt.Sprintf("%s sent only well-formed frames and did not disconnect, but the proxy closed its connection (%d requests outstanding)", c, len(c.Outstanding)))
			return
		}
		for _, r := range c.Reqs {
			if len(r.Replies) == 0 {
				blocked, onLock := blockedReport(e.S)
				sig := "no-response"
				if onLock {
					sig = "no-response(deadlock)"
				}
				ri := f.info[r]
				w.Violate("c01-drain", sig, fmt.Sprintf("request %s (kind %s) got no response although the client stayed connected and every backend attempt was answered or had its connection dropped; drained=%v attempts=%d; steps=%d; busiest tasks: [%s]; blocked tasks: [%s]",
					r, ri.kind, drained, len(w.Attempts[r.Token]), e.S.Steps, busiest(e.S), blocked))
				return
			}
		}
	}
	w.Stat("oracle.c01.requests_checked")
}
