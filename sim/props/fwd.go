package props

import (
	"crypto/md5"
	"fmt"
	"regexp"
	"sort"
	"strings"
	"time"

	"cqlsim/simrt"
	"cqlsim/simsync"
	"cqlsim/world"

	"github.com/datastax/go-cassandra-native-protocol/frame"
	"github.com/datastax/go-cassandra-native-protocol/message"
	"github.com/datastax/go-cassandra-native-protocol/primitive"
)

// fwd is the forwarding scenario family shared by C01, C02, C04, C05, C18: several clients
// issue tokenised requests with several in flight; fake backends answer each attempt
// according to a per-token script; faults are triggered inside operations (at the arrival of
// the k-th attempt at a backend).
type fwdParams struct {
	DupPrepares     bool // some PREPAREs repeat the text of an earlier one
	OddPrepares     bool // some PREPAREs are of valid statements the proxy's classifier cannot parse
	ExoticErrors    bool // some scripted outcomes are ERROR responses the codec library cannot decode
	SystemPrepares  bool // some system requests are PREPAREd and EXECUTEd instead of queried
	TracedPrepares  bool // some PREPAREs ask for tracing
	Hosts, NumConns int
	Clients         int
	OpsPerClient    int
	MaxInflight     int
	ErrPerMille     int   // chance that a token gets a non-trivial outcome script
	Faults          int   // number of triggered faults
	Kinds           []int // weights: query, prepare, execute, batch, system, options, register, use, unsupported, exec-unknown
	Compression     []string
	Versions        []primitive.ProtocolVersion
	Disconnects     bool
	Sequential      bool // one request in flight in the whole world (C05)
	FaultFree       bool
	HoldReplies     bool // backends hold every reply until the whole workload has been sent
	LowestFree      bool // clients reuse the lowest free stream id
	PreparedBatches bool // batches consist mostly of (several distinct) prepared children
	RichCQL         bool // statements from the CQL grammar generator (ground truth only for the non-idempotent class)
	CheckTokens     bool // C02 oracle: the reply carries the token of the request on that stream
}

type prepInfo struct {
	id     []byte
	rmid   []byte
	stmt   world.Stmt
	by     *world.Client
	token  string
	usable bool // PREPARE reply (RESULT) received
}

type reqInfo struct {
	req   *world.ClientReq
	kind  string
	idem  bool // ground truth: documented idempotency of the request as the proxy can know it
	specs []world.OutcomeSpec
	prep  *prepInfo
}

type trigFault struct {
	at   int // fires when this many attempts have arrived at backends
	kind int
	done bool
}

type fwd struct {
	settleAny     bool // settle() accepts a node with at least one pooled connection
	e             *Env
	p             fwdParams
	w             *world.World
	pi            *world.ProxyInst
	clients       []*world.Client
	sent          []int
	preps         []*prepInfo
	info          map[*world.ClientReq]*reqInfo
	byTok         map[string]*reqInfo
	faults        []*trigFault
	pending       []func() // deferred fault actions (node restarts)
	fired         map[string]int
	scriptFn      func(tok string, v primitive.ProtocolVersion) []world.OutcomeSpec
	sysPrepared   map[*world.Client][][2][]byte // system statements prepared per connection: id, result metadata id
	sharePrepared bool                          // a successful PREPARE is known to every node at once (no UNPREPARED)
}

const (
	kQuery = iota
	kPrepare
	kExecute
	kBatch
	kSystem
	kOptions
	kRegister
	kUse
	kUnsupported
	kExecUnknown
	kGraph       // QUERY with a graph-source custom payload
	kExecForeign // EXECUTE of an id the backends know but that was never prepared through this proxy
	nKinds
)

var faultNames = []string{"reset-conn-of-attempt", "reset-node-conns", "reset-two-nodes", "crash-restart", "reset-control", "client-abort", "stall-node", "reset-all"}

func newFwd(e *Env, p fwdParams, cfg world.Config) *fwd {
	f := &fwd{e: e, p: p, info: map[*world.ClientReq]*reqInfo{}, byTok: map[string]*reqInfo{}, fired: map[string]int{}}
	cfg.Hosts, cfg.NumConns = p.Hosts, p.NumConns
	w, pi := boot(e, cfg)
	f.w, f.pi = w, pi
	return f
}

func (f *fwd) bootOK() bool {
	if f.pi.BootErr != nil || f.pi.Listener == nil {
		if !f.w.Stopped() {
			f.e.Res.Infra = "proxy did not boot: " + errStr(f.pi.BootErr)
		}
		return false
	}
	return true
}

// connectClients opens the client connections and completes their STARTUP.
func (f *fwd) connectClients() bool {
	w := f.w
	var sts []*world.ClientReq
	for i := 0; i < f.p.Clients; i++ {
		v := f.p.Versions[f.e.C.Choose("cver", len(f.p.Versions))]
		c := w.ConnectClient(f.pi, v)
		c.LowestFree = f.p.LowestFree
		comp := f.p.Compression[f.e.C.Choose("ccomp", len(f.p.Compression))]
		opts := map[string]string{"CQL_VERSION": "3.0.0"}
		if comp != "" {
			opts["COMPRESSION"] = comp
			c.Compression = comp
		}
		sts = append(sts, c.Send("startup", "", &message.Startup{Options: opts}, nil))
		f.clients = append(f.clients, c)
		f.sent = append(f.sent, 0)
	}
	ok := w.RunUntil(func() bool {
		for _, s := range sts {
			if len(s.Replies) == 0 {
				return false
			}
		}
		return true
	}, time.Minute)
	if !ok && !w.Stopped() {
		w.Violate("handshake", "startup-not-answered", "a STARTUP was not answered")
	}
	return ok
}

func (f *fwd) inflight(c *world.Client) int { return len(c.Outstanding) }

func (f *fwd) totalInflight() int {
	n := 0
	for _, c := range f.clients {
		n += len(c.Outstanding)
	}
	return n
}

func (f *fwd) canSend(i int) bool {
	c := f.clients[i]
	if !c.Connected() || f.sent[i] >= f.p.OpsPerClient {
		return false
	}
	if f.p.Sequential {
		return f.totalInflight() == 0 && f.w.HeldCount() == 0
	}
	return f.inflight(c) < f.p.MaxInflight
}

func (f *fwd) enabledClients() []int {
	var out []int
	for i := range f.clients {
		if f.canSend(i) {
			out = append(out, i)
		}
	}
	return out
}

func (f *fwd) workDone() bool {
	for i, c := range f.clients {
		if c.Connected() && f.sent[i] < f.p.OpsPerClient {
			return false
		}
	}
	return true
}

func (f *fwd) script(tok string, v primitive.ProtocolVersion) []world.OutcomeSpec {
	if f.scriptFn != nil {
		return f.scriptFn(tok, v)
	}
	c := f.e.C
	if f.p.ErrPerMille == 0 || c.Choose("script?", 1000) < 1000-f.p.ErrPerMille {
		return nil
	}
	n := 1 + c.Choose("scriptlen", 4)
	var specs []world.OutcomeSpec
	var outs []world.Outcome
	for i := 0; i < n; i++ {
		s := world.DrawOutcomeX(c, v, f.p.ExoticErrors)
		specs = append(specs, s)
		outs = append(outs, s.Outcome)
	}
	f.w.Script[tok] = outs
	return specs
}

func (f *fwd) usablePreps() []*prepInfo {
	var out []*prepInfo
	for _, p := range f.preps {
		if p.usable {
			out = append(out, p)
		}
	}
	return out
}

var cls = []primitive.ConsistencyLevel{primitive.ConsistencyLevelOne, primitive.ConsistencyLevelQuorum, primitive.ConsistencyLevelLocalQuorum, primitive.ConsistencyLevelAll}

// sendOne makes client i send its next generated request.
func (f *fwd) sendOne(i int) {
	c := f.clients[i]
	w := f.w
	ch := f.e.C
	f.sent[i]++
	kind := ch.Weighted("kind", f.p.Kinds)
	tok := w.NewToken()
	cl := cls[ch.Choose("cl", len(cls))]
	ri := &reqInfo{}
	switch kind {
	case kExecute, kBatch:
		if len(f.usablePreps()) == 0 {
			kind = kQuery
		}
	case kGraph:
		if c.Version < primitive.ProtocolVersion4 {
			kind = kQuery // custom payloads need v4
		}
	}
	switch kind {
	case kQuery:
		st := world.DrawStmt(ch, "'"+tok+"'", "ks.t")
		if ch.Choose("garbage?", 40) == 39 {
			st = world.Stmt{Text: "FROBNICATE " + tok + " ;;", Idempotent: false}
		}
		if f.p.RichCQL && ch.Choose("rich", 3) != 0 {
			g := world.GenCQL(ch, tok, ch.Choose("richclass", 3) != 0)
			st = world.Stmt{Text: g.Text, Idempotent: g.Idempotent}
		}
		st.Text = world.Variant(ch, st.Text)
		ri.kind, ri.idem = "query", st.Idempotent
		ri.specs = f.script(tok, c.Version)
		ri.req = c.Send("query", tok, world.QueryMsg(st.Text, cl), nil)
	case kPrepare:
		if f.p.DupPrepares && len(f.preps) > 0 && ch.Choose("dupprepare", 3) == 2 {
			// the same statement text again (every client of an application prepares the same
			// statements, often at the same moment): same text, same id, possibly while the earlier
			// PREPARE is still in flight
			p0 := f.preps[ch.Choose("dupwhich", len(f.preps))]
			ri.kind, ri.idem = "prepare", true
			ri.req = c.Send("prepare", p0.token, &message.Prepare{Query: p0.stmt.Text}, nil)
			ri.prep = &prepInfo{stmt: p0.stmt, by: c, token: p0.token}
			f.preps = append(f.preps, ri.prep)
			f.w.Stat("probe.duplicate_prepare_sent")
			break
		}
		st := world.DrawStmt(ch, "?", "ks.t_"+tok)
		if f.p.OddPrepares && ch.Choose("oddprepare", 5) == 4 {
			// valid statements that the proxy's classifier cannot make sense of (it then treats them
			// as not idempotent; they are prepared, cached and re-prepared like any other)
			odd := []string{
				"/* app=sim */ INSERT INTO ks.t_" + tok + " (k, v) VALUES (?, 1)",
				"-- app=sim\nDELETE FROM ks.t_" + tok + " WHERE k = ?",
				"TRUNCATE ks.t_" + tok,
				"INSERT INTO ks.t_" + tok + " (k, v) VALUES (?, $$it's$$)",
			}
			st = world.Stmt{Text: odd[ch.Choose("oddpreparewhich", len(odd))], Idempotent: false}
			f.w.Stat("probe.prepare_of_unclassifiable_statement")
		}
		ri.kind, ri.idem = "prepare", true
		ri.specs = f.script(tok, c.Version)
		var mod func(*frame.Frame)
		if f.p.TracedPrepares {
			switch tp := ch.Choose("traceprep", 4); {
			case tp == 2:
				mod = func(fr *frame.Frame) { fr.RequestTracingId(true) } // the node answers with a tracing id
			case tp == 3 && c.Version >= primitive.ProtocolVersion4:
				// a custom payload in front of the PREPARE body (whatever the proxy keeps of the
				// frame for later re-preparation has to stay a well-formed PREPARE)
				mod = func(fr *frame.Frame) { fr.SetCustomPayload(map[string][]byte{"app": []byte("prepare-payload")}) }
				f.w.Stat("probe.prepare_with_custom_payload")
			}
		}
		ri.req = c.Send("prepare", tok, &message.Prepare{Query: st.Text}, mod)
		ri.prep = &prepInfo{stmt: st, by: c, token: tok}
		f.preps = append(f.preps, ri.prep)
	case kExecute:
		ps := f.usablePreps()
		p := ps[ch.Choose("prep", len(ps))]
		ri.kind, ri.idem, ri.prep = "execute", p.stmt.Idempotent, p
		ri.specs = f.script(tok, c.Version)
		var rm []byte
		if c.Version.SupportsResultMetadataId() {
			rm = p.rmid
		}
		ri.req = c.Send("execute", tok, world.ExecMsg(p.id, rm, tok, cl), nil)
	case kExecUnknown:
		id := md5.Sum([]byte("never-prepared-" + tok))
		ri.kind, ri.idem = "execute-unknown", false
		var rm []byte
		if c.Version.SupportsResultMetadataId() {
			rm = id[:]
		}
		ri.req = c.Send("execute", tok, world.ExecMsg(id[:], rm, tok, cl), nil)
	case kBatch:
		ps := f.usablePreps()
		n := 1 + ch.Choose("batchn", 3)
		b := &message.Batch{Type: primitive.BatchTypeLogged, Consistency: cl}
		idem := true
		if f.p.PreparedBatches {
			n = 2 + ch.Choose("batchn2", 3)
		}
		foreignOK := len(f.p.Kinds) > kExecForeign && f.p.Kinds[kExecForeign] > 0
		for j := 0; j < n; j++ {
			if foreignOK && ch.Choose("foreignchild", 6) == 5 {
				// a child the backends know but the proxy never saw prepared: the proxy cannot
				// know its text, so the whole batch is not positively idempotent
				idem = false
				b.Children = append(b.Children, &message.BatchChild{Id: f.foreignID(), Values: []*primitive.Value{primitive.NewValue([]byte(tok))}})
				continue
			}
			if f.p.RichCQL && ch.Choose("junkchild", 8) == 7 {
				// a child the proxy's classifier cannot parse (valid CQL it does not know, or
				// garbage): not positively idempotent, wherever it stands among the children
				junk := []string{"FROBNICATE " + tok, "UPDATE ks.t SET v = 1 WHERE k = '" + tok + "' /* c */ IF EXISTS", "INSERT INTO ks.t (k, v) VALUES ('" + tok + "', $$x$$)", "INSERT INTO ks.t (k, v) VALUES ('" + tok + "', 1 + 1)", "'" + tok + "'", "UPDATE ks.t SET v = ; WHERE k = '" + tok + "'"}
				idem = false
				b.Children = append(b.Children, &message.BatchChild{Query: junk[ch.Choose("junkwhich", len(junk))]})
				continue
			}
			if !(f.p.PreparedBatches && ch.Choose("allprep", 4) != 0) && ch.Choose("batchchild", 2) == 0 {
				st := world.DrawMutation(ch, "'"+tok+"'", "ks.t")
				if f.p.RichCQL && ch.Choose("richchild", 2) == 1 {
					g := world.GenCQL(ch, tok, ch.Choose("richclass", 2) == 1)
					if !strings.HasPrefix(strings.ToUpper(g.Text), "BEGIN") {
						st = world.Stmt{Text: g.Text, Idempotent: g.Idempotent}
					}
				}
				idem = idem && st.Idempotent
				b.Children = append(b.Children, &message.BatchChild{Query: st.Text})
			} else {
				p := ps[ch.Choose("prep", len(ps))]
				idem = idem && p.stmt.Idempotent
				b.Children = append(b.Children, &message.BatchChild{Id: p.id, Values: []*primitive.Value{primitive.NewValue([]byte(tok))}})
			}
		}
		ri.kind, ri.idem = "batch", idem
		ri.specs = f.script(tok, c.Version)
		ri.req = c.Send("batch", tok, b, nil)
	case kSystem:
		qs := []string{"SELECT * FROM system.local", "SELECT * FROM system.peers", "SELECT key, rpc_address FROM system.local", "SELECT count(*) FROM system.peers", "SELECT * FROM system.peers_v2"}
		ri.kind = "system"
		if f.p.SystemPrepares {
			// drivers prepare their system queries too: the proxy answers the PREPARE itself and
			// must answer the EXECUTE of that id on the same connection itself
			switch how := ch.Choose("sysprep", 4); {
			case how == 2:
				ri.kind = "prepare-system"
				// (some name a column the table does not have: answered with one error, nothing else)
				sysPrep := append(append([]string{}, qs[:3]...), "SELECT no_such_column FROM system.local", "SELECT peer, nope FROM system.peers")
				ri.req = c.Send("prepare", "", &message.Prepare{Query: sysPrep[ch.Choose("sysprepq", len(sysPrep))]}, nil)
				f.w.Stat("probe.system_prepare_sent")
			case how == 3 && len(f.sysPrepared[c]) > 0:
				sp := f.sysPrepared[c][ch.Choose("sysprepwhich", len(f.sysPrepared[c]))]
				var rm []byte
				if c.Version.SupportsResultMetadataId() {
					rm = sp[1]
				}
				ri.req = c.Send("system", "", world.ExecMsg(sp[0], rm, "", cl), nil)
				f.w.Stat("probe.system_execute_sent")
			}
			if ri.req != nil {
				break
			}
		}
		ri.req = c.Send("system", "", world.QueryMsg(qs[ch.Choose("sysq", len(qs))], cl), nil)
	case kOptions:
		ri.kind = "options"
		ri.req = c.Send("options", "", &message.Options{}, nil)
	case kRegister:
		ri.kind = "register"
		// any non-empty list of event types is answered READY, whichever types it names
		evs := [][]primitive.EventType{
			{primitive.EventTypeSchemaChange},
			{primitive.EventTypeTopologyChange, primitive.EventTypeStatusChange},
			{primitive.EventTypeStatusChange},
			{primitive.EventTypeTopologyChange, primitive.EventTypeStatusChange, primitive.EventTypeSchemaChange},
			{primitive.EventTypeTopologyChange},
		}
		ri.req = c.Send("register", "", &message.Register{EventTypes: evs[ch.Choose("regtypes", len(evs))]}, nil)
	case kUse:
		ks := []string{"ks1", "ks2", "\"Ks3\""}[ch.Choose("useks", 3)]
		ri.kind = "use"
		ri.req = c.Send("use", "", world.QueryMsg("USE "+ks, cl), nil)
	case kGraph:
		// graph statements are opaque to the proxy; whether they may be retried is configuration --
		// whatever the statement text looks like and however the request is made (a traversal
		// string, text that happens to read as CQL, or an EXECUTE of a prepared statement)
		ri.kind, ri.idem = "graph", f.w.Cfg.IdempotentGraph
		ri.specs = f.script(tok, c.Version)
		// a single entry: the wire order of a Go map is random and would make byte counts differ between replays
		payload := func(fr *frame.Frame) { fr.SetCustomPayload(map[string][]byte{"graph-source": []byte("g")}) }
		switch shape := ch.Choose("graphshape", 4); {
		case shape == 2:
			st := world.DrawStmt(ch, "'"+tok+"'", "ks.t")
			f.w.Stat("probe.graph_request_with_cql_text")
			ri.req = c.Send("query", tok, world.QueryMsg(st.Text, cl), payload)
		case shape == 3 && len(f.usablePreps()) > 0:
			ps := f.usablePreps()
			p := ps[ch.Choose("prep", len(ps))]
			var rm []byte
			if c.Version.SupportsResultMetadataId() {
				rm = p.rmid
			}
			f.w.Stat("probe.graph_request_as_execute")
			ri.req = c.Send("execute", tok, world.ExecMsg(p.id, rm, tok, cl), payload)
		default:
			ri.req = c.Send("query", tok, world.QueryMsg("g.V().has('k','"+tok+"').property('v', 1)", cl), payload)
		}
	case kExecForeign:
		id := f.foreignID()
		ri.kind, ri.idem = "execute-foreign", false
		ri.specs = f.script(tok, c.Version)
		var rm []byte
		if c.Version.SupportsResultMetadataId() {
			rm = id
		}
		ri.req = c.Send("execute", tok, world.ExecMsg(id, rm, tok, cl), nil)
	case kUnsupported:
		ri.kind = "unsupported"
		ri.req = c.Send("unsupported", "", &message.AuthResponse{Token: []byte("x")}, nil)
	}
	f.info[ri.req] = ri
	if ri.req.Token != "" {
		f.byTok[ri.req.Token] = ri
	}
	ri.req.Idempotent = ri.idem
}

// foreignID returns a prepared id that every backend node knows (as if another client had
// prepared it directly at the cluster) but that never went through the proxy, so the proxy
// cannot know its text.
func (f *fwd) foreignID() []byte {
	id := md5.Sum([]byte("foreign-statement"))
	for _, n := range f.w.Nodes {
		n.Prepared[fmt.Sprintf("%x", id[:])] = "INSERT INTO ks.t (k, v) VALUES (?, 1)"
	}
	return id[:]
}

// onReply keeps the harness's knowledge of prepared ids current.
func (f *fwd) onReply(req *world.ClientReq, rep *world.ClientReply) {
	ri := f.info[req]
	if f.p.CheckTokens && ri != nil {
		f.checkToken(ri, rep)
	}
	if ri != nil && ri.kind == "prepare-system" && rep.Frame != nil {
		if pr, ok := rep.Frame.Body.Message.(*message.PreparedResult); ok {
			if f.sysPrepared == nil {
				f.sysPrepared = map[*world.Client][][2][]byte{}
			}
			f.sysPrepared[req.Client] = append(f.sysPrepared[req.Client], [2][]byte{pr.PreparedQueryId, pr.ResultMetadataId})
		}
		return
	}
	if ri == nil || ri.kind != "prepare" || rep.Frame == nil {
		return
	}
	if pr, ok := rep.Frame.Body.Message.(*message.PreparedResult); ok {
		if f.sharePrepared {
			for _, n := range f.w.Nodes {
				n.Prepared[fmt.Sprintf("%x", pr.PreparedQueryId)] = ri.prep.stmt.Text
			}
		}
		ri.prep.id = pr.PreparedQueryId
		ri.prep.rmid = pr.ResultMetadataId
		ri.prep.usable = true
	}
}

var tokRe = regexp.MustCompile(`tok[0-9]+x`)

// checkToken is the C02 oracle: whatever token a reply carries must be the token of the
// request this client sent on that stream.
func (f *fwd) checkToken(ri *reqInfo, rep *world.ClientReply) {
	if rep.Frame == nil {
		return
	}
	req := ri.req
	got := ""
	switch m := rep.Frame.Body.Message.(type) {
	case *message.RowsResult:
		if m.Metadata != nil && len(m.Metadata.Columns) == 1 && m.Metadata.Columns[0].Name == "tok" && len(m.Data) == 1 {
			got = string(m.Data[0][0])
		} else if req.Token != "" {
			f.w.Violate("c02-token", "reply-mismatch(kind)", fmt.Sprintf("request %s (forwarded, token %s) was answered with a ROWS result that no backend produced for it: %v", req, req.Token, m))
			return
		}
	case *message.PreparedResult:
		if ri.kind != "prepare" && ri.kind != "prepare-system" {
			f.w.Violate("c02-token", "reply-mismatch(kind)", fmt.Sprintf("request %s was answered with a PREPARED result", req))
			return
		}
		f.w.Stat("oracle.c02.prepared_checked")
		if q, ok := req.Msg.(*message.Prepare); ok {
			if t := tokRe.FindString(q.Query); t != "" {
				got = tokenOfPreparedID(f, m.PreparedQueryId)
			}
		}
	case message.Error:
		got = tokRe.FindString(m.GetErrorMessage())
	case *message.Supported:
		// the answer to somebody's OPTIONS (e.g. a heartbeat of the proxy itself)
		if ri.kind != "options" {
			f.w.Violate("c02-token", "reply-mismatch(kind)", fmt.Sprintf("request %s was answered with SUPPORTED, the answer to an OPTIONS request somebody else sent", req))
			return
		}
	case *message.Ready:
		if ri.kind != "register" {
			f.w.Violate("c02-token", "reply-mismatch(kind)", fmt.Sprintf("request %s was answered with READY", req))
			return
		}
	}
	if got == "" {
		return
	}
	f.w.Stat("oracle.c02.tokens_checked")
	if got != req.Token {
		f.w.Violate("c02-token", "reply-mismatch", fmt.Sprintf("%s received on stream %d the answer to %s, but the request it sent on that stream is %s (%s)", req.Client, req.Stream, got, req.Token, req))
	}
}

// tokenOfPreparedID maps a prepared id back to the token of the PREPARE text that produces it.
func tokenOfPreparedID(f *fwd, id []byte) string {
	for _, p := range f.preps {
		want := md5.Sum([]byte(p.stmt.Text + "\x00"))
		if string(want[:]) == string(id) {
			return p.token
		}
	}
	return "tok-unknown-prepared-id-x"
}

// ---------------------------------------------------------------- triggered faults

func (f *fwd) planFaults() {
	c := f.e.C
	n := 0
	if f.p.Faults > 0 {
		n = c.Choose("nfaults", f.p.Faults+1)
	}
	total := f.p.Clients * f.p.OpsPerClient
	for i := 0; i < n; i++ {
		f.faults = append(f.faults, &trigFault{at: 1 + c.Choose("faultat", total+1), kind: c.Choose("faultkind", len(faultNames))})
	}
	sort.Slice(f.faults, func(i, j int) bool { return f.faults[i].at < f.faults[j].at })
}

func (f *fwd) liveNodes() []*world.Node {
	var out []*world.Node
	for _, n := range f.w.Nodes {
		if n.Up {
			out = append(out, n)
		}
	}
	return out
}

func (f *fwd) onAttempt(a *world.Attempt) {
	w := f.w
	for _, ft := range f.faults {
		if ft.done || len(w.AttemptOrder) < ft.at {
			continue
		}
		ft.done = true
		name := faultNames[ft.kind]
		f.fired[name]++
		w.Stat("fault." + name)
		w.Logf("FAULT %s (triggered by attempt #%d, %s at %s)", name, len(w.AttemptOrder), a.Token, a.Conn)
		switch ft.kind {
		case 0:
			a.Conn.Reset("fault: reset connection of the arriving attempt")
		case 1:
			for _, c := range a.Node.LiveConns() {
				c.Reset("fault: reset all connections of node")
			}
		case 2:
			// two nodes lose all their connections at the same instant
			ns := f.liveNodes()
			cnt := 0
			for _, n := range ns {
				if cnt == 2 {
					break
				}
				for _, c := range n.LiveConns() {
					c.Reset("fault: simultaneous reset")
				}
				cnt++
			}
		case 3:
			n := a.Node
			n.Crash()
			after := len(w.AttemptOrder) + 1 + f.e.C.Choose("restartafter", 6)
			f.pending = append(f.pending, func() {
				if len(w.AttemptOrder) >= after && !n.Up {
					n.Restart()
				}
			})
		case 4:
			for _, c := range append([]*world.BackendConn(nil), w.ControlConns...) {
				c.Reset("fault: reset control connection")
			}
		case 5:
			if f.p.Disconnects {
				cs := f.connected()
				if len(cs) > 1 {
					cs[f.e.C.Choose("abortwho", len(cs))].Abort()
				}
			}
		case 6:
			a.Node.Stalled = true
			if f.e.C.Choose("stall-stops-reading", 2) == 1 {
				a.Node.StallHard(64 + f.e.C.Choose("stall-sndbuf", 1000))
				w.Stat("fault.stall-node-stops-reading")
			}
		case 7:
			for _, n := range f.liveNodes() {
				for _, c := range n.LiveConns() {
					c.Reset("fault: reset every backend connection")
				}
			}
		}
	}
}

func (f *fwd) connected() []*world.Client {
	var out []*world.Client
	for _, c := range f.clients {
		if c.Connected() {
			out = append(out, c)
		}
	}
	return out
}

func (f *fwd) stepHook() {
	for _, p := range f.pending {
		p()
	}
}

// runWorkload drives the generated workload to completion and then drains.
func (f *fwd) runWorkload(drain time.Duration) (drained bool) {
	w := f.w
	w.OnReply = f.onReply
	w.OnAttempt = f.onAttempt
	w.OnStep = f.stepHook
	if !f.p.FaultFree {
		f.planFaults()
	}
	var en []int
	w.Workload = func() int { en = f.enabledClients(); return len(en) }
	w.DoWork = func(i int) { f.sendOne(en[i]) }
	w.ClockOn = true
	w.ClockBudget = f.e.C.Choose("clockbudget", 4)
	savePeer := w.Cfg.WPeer
	if f.p.HoldReplies {
		w.Cfg.WPeer = 0
		w.ClockBudget = 0
	}
	w.RunUntil(f.workDone, 2*time.Hour)
	if f.p.HoldReplies {
		w.Quiesce() // everything sent has reached a backend (or was refused) before the first reply is released
	}
	w.Cfg.WPeer = savePeer
	w.Workload = nil
	w.ClockOn = false
	// faults stop; everything crashed comes back; stalled nodes stay stalled (their
	// connections are dropped by the proxy's idle timeout, which is the property's precondition)
	for _, ft := range f.faults {
		ft.done = true
	}
	// Crashed nodes either come back or stay down for good (a refused connection is a dropped
	// one, which the property allows); a stalled node violates the property's precondition
	// (attempts neither answered nor dropped), so stalls end here: the node resumes or dies.
	for _, n := range w.Nodes {
		if n.Stalled {
			if f.e.C.Choose("unstall", 2) == 0 {
				n.Unstall()
			} else {
				n.Crash()
				n.Stalled = false
			}
		}
		if !n.Up && f.e.C.Choose("restart?", 2) == 0 {
			n.Restart()
		}
	}
	// a permanently dead cluster is outside what the property promises anything about
	// (requests that need a new session wait for the control connection): one node lives
	if len(f.liveNodes()) == 0 {
		w.Nodes[f.e.C.Choose("revive", len(w.Nodes))].Restart()
	}
	f.pending = nil
	return w.RunUntil(func() bool { return f.allAnswered() }, drain)
}

// clientsStillOpen: a client that sends only well-formed frames and did not leave must not have
// been disconnected by the proxy, whatever happened at the backends.
func (f *fwd) clientsStillOpen(oracle string) bool {
	for _, c := range f.clients {
		if !c.Gone && !c.Hostile && !c.Connected() {
			f.w.Violate(oracle, "client-connection-closed-by-proxy", fmt.Sprintf("%s (%s, compression %q) sent only well-formed frames and did not disconnect, but the proxy closed its connection (%d requests outstanding)", c, c.Version, c.Compression, len(c.Outstanding)))
			return false
		}
	}
	return true
}

func (f *fwd) allAnswered() bool {
	for _, c := range f.clients {
		if c.Connected() && len(c.Outstanding) > 0 {
			return false
		}
	}
	return true
}

// ---------------------------------------------------------------- shared diagnostics

func blockedReport(s *simrt.Sched) (string, bool) {
	var lines []string
	onLock := false
	for _, t := range s.BlockedTasks() {
		what := fmt.Sprintf("%T", t.WaitObj())
		switch o := t.WaitObj().(type) {
		case *simsync.Mutex:
			onLock = true
			what = fmt.Sprintf("Mutex held by %v", o.Owner())
		case *simsync.RWMutex:
			onLock = true
			what = fmt.Sprintf("RWMutex (writer %v)", o.WriterOwner())
		}
		lines = append(lines, fmt.Sprintf("%s blocked in %s on %s", t, t.OpLabel(), what))
	}
	sort.Strings(lines)
	return strings.Join(lines, "; "), onLock
}

// busiest names the tasks that consumed most scheduler steps (livelock diagnostics).
func busiest(s *simrt.Sched) string {
	ts := s.Tasks()
	sort.Slice(ts, func(i, j int) bool { return ts[i].Steps > ts[j].Steps })
	var out []string
	for i, t := range ts {
		if i >= 3 {
			break
		}
		out = append(out, fmt.Sprintf("%s steps=%d state=%s op=%s", t, t.Steps, t.State(), t.OpLabel()))
	}
	return strings.Join(out, "; ")
}

func (f *fwd) sample() string {
	var sb strings.Builder
	fmt.Fprintf(&sb, "hosts=%d conns=%d clients=%d ops/client=%d inflight<=%d err‰=%d faults=%v", f.p.Hosts, f.p.NumConns, f.p.Clients, f.p.OpsPerClient, f.p.MaxInflight, f.p.ErrPerMille, f.fired)
	n := 0
	for _, c := range f.clients {
		for _, r := range c.Reqs {
			if ri := f.info[r]; ri != nil && len(ri.specs) > 0 && n < 4 {
				var outs []string
				for _, s := range ri.specs {
					outs = append(outs, s.Name)
				}
				fmt.Fprintf(&sb, " | %s idem=%v script=%v attempts=%d", r, ri.idem, outs, len(f.w.Attempts[r.Token]))
				n++
			}
		}
	}
	return sb.String()
}

func replyMsg(r *world.ClientReq) message.Message {
	if len(r.Replies) == 0 || r.Replies[0].Frame == nil {
		return nil
	}
	return r.Replies[0].Frame.Body.Message
}

var _ = frame.NewFrame
