package props

import (
	"bytes"
	"crypto/md5"
	"fmt"
	"strings"
	"time"

	"cqlsim/world"

	"github.com/datastax/go-cassandra-native-protocol/frame"
	"github.com/datastax/go-cassandra-native-protocol/message"
	"github.com/datastax/go-cassandra-native-protocol/primitive"
)

func init() { Scenarios["C03"] = c03 }

// sameButStream reports whether two encoded frames are byte-identical except for the stream id (bytes 2-3).
func sameButStream(a, b []byte) bool {
	if len(a) != len(b) || len(a) < 9 {
		return false
	}
	return a[0] == b[0] && a[1] == b[1] && bytes.Equal(a[4:], b[4:])
}

func diffAt(a, b []byte) string {
	n := min(len(a), len(b))
	for i := 0; i < n; i++ {
		if a[i] != b[i] && i != 2 && i != 3 {
			lo, hi := max(0, i-8), min(n, i+8)
			return fmt.Sprintf("first difference at byte %d (lengths %d/%d): sent ...% x..., received ...% x...", i, len(a), len(b), a[lo:hi], b[lo:hi])
		}
	}
	return fmt.Sprintf("lengths differ: %d vs %d", len(a), len(b))
}

type protoWorld struct {
	f          *fwd
	dse        bool
	versions   []primitive.ProtocolVersion
	execIDs    [][]byte
	execSelect []bool
}

// protoBoot boots a world whose proxy accepts every version of one family (OSS up to v5 or DSE).
func protoBoot(e *Env, tweak func(cfg *world.Config)) *protoWorld {
	c := e.C
	cfg := swarmWorld(e)
	cfg.WClock = 0
	pw := &protoWorld{dse: c.Choose("family", 2) == 1}
	if pw.dse {
		cfg.DSE = true
		cfg.BackendMax = primitive.ProtocolVersionDse2
		cfg.ProxyVersion = []primitive.ProtocolVersion{primitive.ProtocolVersionDse1, primitive.ProtocolVersionDse2, 4}[c.Choose("pver", 3)]
		cfg.ProxyMax = primitive.ProtocolVersionDse2
		pw.versions = []primitive.ProtocolVersion{3, 4, primitive.ProtocolVersionDse1, primitive.ProtocolVersionDse2}
	} else {
		cfg.BackendMax = 5
		cfg.ProxyVersion = []primitive.ProtocolVersion{4, 5, 3}[c.Choose("pver", 3)]
		cfg.ProxyMax = 5
		pw.versions = []primitive.ProtocolVersion{3, 4, 5}
	}
	if tweak != nil {
		tweak(&cfg)
	}
	p := fwdParams{
		Hosts:       1 + c.Choose("hosts", 3),
		NumConns:    1 + c.Choose("numconns", 2),
		Clients:     1 + c.Choose("clients", 3),
		MaxInflight: 1 + c.Choose("inflight", 6),
		Kinds:       []int{1},
		Compression: []string{"", "lz4", "snappy"},
		Versions:    pw.versions,
		FaultFree:   true,
	}
	pw.f = newFwd(e, p, cfg)
	return pw
}

func (pw *protoWorld) connect() bool {
	f := pw.f
	if !f.bootOK() {
		return false
	}
	if !f.connectClients() {
		return false
	}
	for _, cl := range f.clients {
		if cl.Version == 5 && cl.Compression == "snappy" {
			// not negotiable in v5; such a client simply runs without it (it was sent at STARTUP: the proxy accepted it)
			_ = cl
		}
	}
	// statements the cluster knows (prepared elsewhere), so that EXECUTE/BATCH children pass at every node
	for i, text := range []string{"SELECT * FROM ks.t WHERE k = ?", "INSERT INTO ks.t (k, v) VALUES (?, 1)", "UPDATE ks.t SET v = 2 WHERE k = ?"} {
		id := md5.Sum([]byte(text))
		pw.execIDs = append(pw.execIDs, id[:])
		pw.execSelect = append(pw.execSelect, i == 0)
		f.w.ForeignPrepared(id[:], text)
	}
	return true
}

// C03 — forwarded requests and responses are byte-transparent except for stream ids.
func c03(e *Env) {
	c := e.C
	pw := protoBoot(e, nil)
	f := pw.f
	if !pw.connect() {
		return
	}
	w := f.w
	respName := map[string]string{}
	// responses of every kind, with header flags
	w.ResultFor = func(a *world.Attempt) message.Message {
		if a.OpCode == primitive.OpCodePrepare {
			return nil
		}
		m, mod, name := world.GenResponse(c, a.Conn.Version, a.Token)
		respName[a.Token] = name
		a.UserMod = mod
		if _, isErr := m.(message.Error); isErr {
			return m
		}
		return m
	}
	w.ReplyMod = func(a *world.Attempt, fr *frame.Frame) {
		if mod, ok := a.UserMod.(func(*frame.Frame)); ok && mod != nil {
			mod(fr)
		}
	}
	maxVal := []int{64, 4096, 1 << 20}[c.Choose("maxval", 3)]
	nOps := 10 + c.Choose("c03ops", 40)
	sent := 0
	type rec struct {
		req  *world.ClientReq
		desc string
	}
	var recs []rec
	retryScript := c.Choose("retries", 3) == 2
	var en []int
	w.Workload = func() int {
		en = en[:0]
		if sent >= nOps {
			return 0
		}
		for i, cl := range f.clients {
			if cl.Connected() && len(cl.Outstanding) < f.p.MaxInflight {
				en = append(en, i)
			}
		}
		return len(en)
	}
	// some runs: a client stops reading for a while in the middle of the history - longer than any
	// time-out the proxy is configured with, shorter than twice that - and then reads on: what it
	// has not read waits for it, byte for byte (its socket takes a few hundred bytes meanwhile)
	pauses := c.Choose("c03-client-pauses", 4) == 3
	var paused *world.Client
	var resumeAt time.Duration
	w.OnStep = func() {
		if paused != nil && w.Now() >= resumeAt {
			paused.Link.SetNoRead(false, 0)
			w.Logf("%s: READS AGAIN", paused)
			paused = nil
		}
	}
	w.DoWork = func(k int) {
		cl := f.clients[en[k]]
		sent++
		if pauses && paused == nil && sent > 2 && c.Choose("c03-pause-now", 8) == 7 {
			pauses = false
			paused = cl
			cl.StopReading(200 + c.Choose("c03-sndbuf", 3000))
			resumeAt = w.Now() + []time.Duration{2 * time.Second, f.w.Cfg.IdleTimeout + 5*time.Second, f.w.Cfg.IdleTimeout + f.w.Cfg.IdleTimeout/2}[c.Choose("c03-pause-for", 3)]
			e.Res.Stats["probe.c03.client_paused_reading"]++
		}
		tok := w.NewToken()
		g := world.GenRequest(c, cl.Version, tok, pw.execIDs, pw.execSelect, maxVal)
		if retryScript && c.Choose("scriptit", 3) == 2 {
			// the same frame object is sent again on retry: every attempt must carry the client's bytes
			w.Script[tok] = []world.Outcome{world.ErrOutcome("bootstrapping", &message.IsBootstrapping{ErrorMessage: "boot"}), world.ErrOutcome("bootstrapping", &message.IsBootstrapping{ErrorMessage: "boot"})}
		}
		r := cl.Send(g.Kind, tok, g.Msg, g.Mod)
		recs = append(recs, rec{r, g.Desc})
	}
	done := func() bool {
		if sent < nOps {
			return false
		}
		return f.allAnswered()
	}
	ok := w.RunUntil(done, 30*time.Minute)
	w.Workload = nil
	e.Res.Shape = fmt.Sprintf("dse=%v h%d cl%d maxval=%d", pw.dse, f.p.Hosts, f.p.Clients, maxVal)
	if w.Stopped() {
		return
	}
	for _, cl := range f.clients {
		if !cl.Connected() && !cl.Gone {
			last := ""
			if len(cl.Reqs) > 0 {
				last = cl.Reqs[len(cl.Reqs)-1].String()
			}
			var which string
			for _, r := range recs {
				if r.req.Client == cl && len(r.req.Replies) == 0 {
					which = r.desc
					break
				}
			}
			w.Violate("c03-reject", "valid-frame-rejected("+kindOf(which)+" "+cl.Version.String()+")", fmt.Sprintf("%s (%s, compression %q) sent only well-formed frames but the proxy closed its connection; first unanswered request: %s; last request %s", cl, cl.Version, cl.Compression, which, last))
			return
		}
	}
	if !ok {
		w.Violate("c03-drain", "request-not-answered", "a forwarded request got no reply")
		return
	}
	if len(w.BadFrames) > 0 {
		bf := w.BadFrames[0]
		w.Violate("c03-request", "backend-cannot-decode-forwarded-frame", fmt.Sprintf("%s received a frame it cannot decode: %s", bf.Conn, bf.Err))
		return
	}
	checkedReq, checkedResp := 0, 0
	for _, r := range recs {
		req := r.req
		atts := w.Attempts[req.Token]
		for i, a := range atts {
			if !sameButStream(req.Raw, a.Raw) {
				w.Violate("c03-request", "request-bytes-changed("+req.Kind+" "+req.Client.Version.String()+")", fmt.Sprintf("%s [%s] attempt #%d at %s: %s", req, r.desc, i+1, a.Conn, diffAt(req.Raw, a.Raw)))
				return
			}
			checkedReq++
		}
		if len(req.Replies) == 0 || len(atts) == 0 {
			continue
		}
		rep := req.Replies[0]
		if em, isErr := replyMsg(req).(message.Error); isErr && (strings.Contains(em.GetErrorMessage(), "Proxy ") || strings.Contains(em.GetErrorMessage(), "Attempted to use")) {
			continue // the proxy's own answer
		}
		var last *world.Attempt
		for _, a := range atts {
			if a.Replied && !a.ReplyLost {
				last = a
			}
		}
		if last == nil {
			continue
		}
		if !sameButStream(last.ReplyRaw, rep.Raw) {
			w.Violate("c03-response", "response-bytes-changed("+respName[req.Token]+")", fmt.Sprintf("%s: response %s written by %s: %s", req, respName[req.Token], last.Conn, diffAt(last.ReplyRaw, rep.Raw)))
			return
		}
		checkedResp++
	}
	e.Res.Stats["oracle.c03.request_attempts_compared"] += checkedReq
	e.Res.Stats["oracle.c03.responses_compared"] += checkedResp
	e.Res.Nontrivial = checkedReq > 0
	if len(recs) > 0 {
		e.Res.Sample = fmt.Sprintf("family dse=%v, %d requests, e.g. %s; %d request attempts and %d responses compared byte for byte", pw.dse, len(recs), recs[0].desc, checkedReq, checkedResp)
	}
}

func kindOf(desc string) string {
	if i := strings.Index(desc, " "); i > 0 {
		return desc[:i]
	}
	return "?"
}
