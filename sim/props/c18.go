package props

import (
	"strings"

	"cqlsim/world"
)

func init() { Scenarios["C18"] = c18 }

// C15 is an addition to the families the property names: its concurrent part consumes query
// plans on several tasks while membership events are applied, the access pattern of requests in
// flight during a topology change, at a fraction of the cost of a full proxy run. C19 adds the
// Astra endpoint code (certificate verification callbacks shared by the concurrent handshakes
// of one endpoint), C10 the code that answers system.local and system.peers for several clients
// of one proxy (those requests involve no shared lock of the forwarding path, so nothing orders
// the client goroutines by accident).
var c18Families = []string{"C01", "C07", "C08", "C14", "C16", "C02", "C01", "C07", "C15", "C16", "C19", "C10"}

// C18 — concurrent operation is free of data races. The scenario families of C01, C02, C07,
// C08, C14 and C16 run under the deterministic scheduler in a -race build in which the
// scheduler's own hand-offs are hidden from the detector, so that it reports exactly the pairs
// of accesses that the program's own synchronisation leaves unordered (DESIGN.md §3.7).
func c18(e *Env) {
	fam := c18Families[int(e.Seed%uint64(len(c18Families)))]
	e.Res.Stats["probe.c18.family."+fam]++
	Scenarios[fam](e)
	e.Res.Shape = fam + " " + e.Res.Shape
	e.Res.Sample = "family " + fam + ": " + e.Res.Sample
	e.raceOnly = true
}

// finishRace turns race reports of this run into violations (and, for C18, drops the
// violations that belong to the family's own property).
func finishRace(e *Env, res *Result) {
	sigs, details := raceReports()
	if e.raceOnly {
		var keep []world.Violation
		for _, v := range res.Violations {
			if strings.HasPrefix(v.Signature, "race:") {
				keep = append(keep, v)
			}
		}
		if len(res.Violations) != len(keep) {
			res.Stats["c18.family_violations_ignored"] += len(res.Violations) - len(keep)
		}
		res.Violations = keep
	}
	for i, s := range sigs {
		res.Violations = append(res.Violations, world.Violation{Oracle: "race-detector", Signature: s, Detail: details[i]})
	}
	if !raceBuild && e.raceOnly {
		res.Infra = "C18 needs the -race build of the worker"
	}
}
