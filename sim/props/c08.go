package props

import (
	"encoding/hex"
	"fmt"
	"strings"
	"sync"
	"time"

	"cqlsim/world"

	"github.com/datastax/cql-proxy/proxycore"
	"github.com/datastax/go-cassandra-native-protocol/message"
	"github.com/datastax/go-cassandra-native-protocol/primitive"
)

func init() { Scenarios["C08"] = c08 }

// simCache is a harness-owned prepared cache: membership is known exactly, and evictions are
// decisions of the run (never silent).
type simCache struct {
	mu      sync.Mutex
	m       map[string]*proxycore.PreparedEntry
	evicted map[string]uint64 // id -> event seq of the eviction
	stores  int
}

func newSimCache() *simCache {
	return &simCache{m: map[string]*proxycore.PreparedEntry{}, evicted: map[string]uint64{}}
}

func (c *simCache) Store(id string, e *proxycore.PreparedEntry) {
	c.mu.Lock()
	c.m[id] = e
	c.stores++
	c.mu.Unlock()
}

func (c *simCache) Load(id string) (*proxycore.PreparedEntry, bool) {
	c.mu.Lock()
	defer c.mu.Unlock()
	e, ok := c.m[id]
	return e, ok
}

func (c *simCache) has(id string) bool {
	c.mu.Lock()
	defer c.mu.Unlock()
	_, ok := c.m[id]
	return ok
}

// C08 — prepared statements execute on every backend host without client involvement.
func c08(e *Env) {
	c := e.C
	cfg := swarmWorld(e)
	cfg.WClock = 0
	cache := newSimCache()
	cfg.PreparedCache = cache
	// Half of the runs use the shipped configuration instead: no cache is configured and the proxy
	// creates its default one (about 390 000 entries, so nothing is ever evicted in a run); the
	// statement is then in the cache from the moment its PREPARE was answered through the proxy.
	defaultCache := c.Choose("defaultcache", 2) == 1
	inDefault := map[string]bool{}
	if defaultCache {
		cfg.PreparedCache = nil
		e.Res.Stats["probe.c08.default_prepared_cache"]++
	}
	cached := func(id string) bool {
		if defaultCache {
			return inDefault[id]
		}
		return cache.has(id)
	}
	shape := c.Choose("c08shape", 4) // 0 plain, 1 restarts, 2 late joiners, 3 re-prepare failures
	p := fwdParams{
		SystemPrepares: true,
		OddPrepares:    true,
		Hosts:          2 + c.Choose("hosts", 3),
		NumConns:       1 + c.Choose("numconns", 2),
		Clients:        1 + c.Choose("clients", 3),
		OpsPerClient:   0,
		MaxInflight:    1 + c.Choose("inflight", 6),
		Kinds:          []int{0, 1},
		Compression:    []string{"", "", "lz4", "snappy"},
		Versions:       []primitive.ProtocolVersion{primitive.ProtocolVersion4, primitive.ProtocolVersion4, primitive.ProtocolVersion3},
		FaultFree:      true,
		TracedPrepares: true,
	}
	// tuning knob (a quarter of the runs): few stream ids per backend connection, so that a handful
	// of clients with a few requests in flight use them all up while UNPREPARED rounds are going on
	// (a request that finds no free id on a connection moves on to the next host)
	cfg.MaxStreams = []int16{0, 0, 0, 4}[c.Choose("c08maxstreams", 4)]
	if cfg.MaxStreams > 0 {
		p.MaxInflight = 3 + c.Choose("inflight-few-streams", 6)
	}
	f := newFwd(e, p, cfg)
	if !f.bootOK() || !f.connectClients() {
		return
	}
	w := f.w
	// reply hook: UNPREPARED must never reach a client for an id the cache holds
	w.OnReply = func(req *world.ClientReq, rep *world.ClientReply) {
		f.onReply(req, rep)
		if rep.Frame == nil {
			return
		}
		if pr, ok := rep.Frame.Body.Message.(*message.PreparedResult); ok {
			inDefault[hex.EncodeToString(pr.PreparedQueryId)] = true
		}
		if up, ok := rep.Frame.Body.Message.(*message.Unprepared); ok {
			id := hex.EncodeToString(up.Id)
			if cached(id) {
				comp := req.Client.Compression
				if comp == "" {
					comp = "none"
				}
				var where string
				if atts := w.Attempts[req.Token]; len(atts) > 0 {
					a := atts[len(atts)-1]
					where = a.Node.Name
					if a.Node.Joined {
						where += " (joined after start-up)"
					}
				}
				sig := "unprepared-reached-client"
				if ri := f.info[req]; ri != nil && ri.kind == "execute" || f.info[req] != nil && f.info[req].kind == "batch" {
					if atts := w.Attempts[req.Token]; len(atts) > 0 && atts[len(atts)-1].Node.Joined {
						sig += "(late-joined host)"
					} else if req.Client.Compression != "" {
						sig += "(compressed session)"
					}
				}
				w.Violate("c08-unprepared", sig, fmt.Sprintf("%s received UNPREPARED for id %s although the proxy's prepared cache holds its PREPARE (client compression %s, last attempt on %s)", req, id[:12], comp, where))
			}
		}
	}
	w.OnAttempt = f.onAttempt

	// phase 0 (some plain runs): the order of a driver recovering after a proxy restart - EXECUTE of an
	// id nobody knows yet (answered UNPREPARED, not judged), then the PREPARE, then EXECUTEs at once
	// or a little later: from the PREPARE on the statement executes on every host, whichever
	// connections saw the early failures
	if shape == 0 && c.Choose("recovery-order", 3) == 2 {
		cl := f.clients[0]
		tok0 := w.NewToken()
		text := "SELECT * FROM ks.t_" + tok0 + " WHERE k = ?"
		id := world.PreparedID(text)
		var rm []byte
		if cl.Version.SupportsResultMetadataId() {
			rm = id
		}
		for i := 1 + c.Choose("early-executes", 2*len(w.Nodes)); i > 0; i-- {
			tok := w.NewToken()
			r := cl.Send("execute", tok, world.ExecMsg(id, rm, tok, primitive.ConsistencyLevelOne), nil)
			if !w.RunUntil(func() bool { return len(r.Replies) > 0 }, time.Minute) {
				return
			}
		}
		pr := cl.Send("prepare", tok0, &message.Prepare{Query: text}, nil)
		if !w.RunUntil(func() bool { return len(pr.Replies) > 0 }, time.Minute) {
			return
		}
		if p, ok := replyMsg(pr).(*message.PreparedResult); ok {
			if p.ResultMetadataId != nil {
				rm = p.ResultMetadataId
			}
			w.RunUntil(func() bool { return false }, []time.Duration{0, 300 * time.Millisecond, 2 * time.Second}[c.Choose("after-late-prepare", 3)])
			for i := 2*len(w.Nodes)*p0NumConns(f) + 2; i > 0 && !w.Stopped(); i-- {
				tok := w.NewToken()
				r := cl.Send("execute", tok, world.ExecMsg(p.PreparedQueryId, rm, tok, primitive.ConsistencyLevelOne), nil)
				if !w.RunUntil(func() bool { return len(r.Replies) > 0 }, time.Minute) {
					if !w.Stopped() {
						w.Violate("c08-drain", "execute-not-answered", fmt.Sprintf("%s got no reply", r))
					}
					return
				}
				if em, isErr := replyMsg(r).(message.Error); isErr {
					w.Violate("c08-late-prepare", "execute-failed-after-late-prepare", fmt.Sprintf("%s: the statement was prepared through the proxy after earlier EXECUTEs of its id had failed; this EXECUTE, sent after the PREPARE had been answered, was answered with %v (attempts %s)", r, em, traceOf(w, tok)))
					return
				}
			}
			e.Res.Stats["probe.c08.executes_after_late_prepare"]++
		}
		if w.Stopped() {
			return
		}
	}
	// phase 1: every client prepares a few statements
	nStmts := 1 + c.Choose("nstmts", 4)
	f.p.OpsPerClient = nStmts
	f.p.Kinds = []int{0, 1}
	if shape == 3 {
		// scripts for the re-prepares that will follow: first arrival (the client's PREPARE) succeeds
		f.scriptFn = func(tok string, v primitive.ProtocolVersion) []world.OutcomeSpec {
			outs := []world.Outcome{world.OK}
			for i := 0; i < 1+c.Choose("reprep", 3); i++ {
				switch c.Choose("reprepout", 6) {
				case 0:
					outs = append(outs, world.OK)
				case 1:
					outs = append(outs, world.ErrOutcome("overloaded", &message.Overloaded{ErrorMessage: "re-prepare refused"}))
				case 4:
					// (a node whose schema lags)
					outs = append(outs, world.ErrOutcome("invalid", &message.Invalid{ErrorMessage: "re-prepare refused: unconfigured table"}))
				case 5:
					outs = append(outs, world.ErrOutcome("server", &message.ServerError{ErrorMessage: "re-prepare refused"}))
				case 2:
					outs = append(outs, world.Outcome{Kind: world.OutDropNow, Name: "drop_now"})
				case 3:
					outs = append(outs, world.Outcome{Kind: world.OutSilentDrop, Name: "silent_drop"})
				}
			}
			w.Script[tok] = outs
			return nil
		}
	}
	var en []int
	w.Workload = func() int { en = f.enabledClients(); return len(en) }
	w.DoWork = func(i int) { f.sendOne(en[i]) }
	if !w.RunUntil(func() bool { return f.workDone() && f.allAnswered() }, 10*time.Minute) {
		if !w.Stopped() {
			w.Violate("c08-drain", "prepare-not-answered", "a PREPARE got no reply")
		}
		return
	}
	f.scriptFn = func(string, primitive.ProtocolVersion) []world.OutcomeSpec { return nil }
	if len(f.usablePreps()) == 0 {
		return
	}

	// topology faults between PREPARE and EXECUTE
	switch shape {
	case 1:
		pooled := func(n *world.Node) int {
			k := 0
			for _, bc := range n.LiveConns() {
				if bc.Started && !bc.Control {
					k++
				}
			}
			return k
		}
		before := map[*world.Node]int{}
		for _, n := range w.Nodes {
			before[n] = pooled(n)
			if c.Choose("restart?", 2) == 1 {
				n.Crash()
				n.Restart()
				e.Res.Stats["fault.node-restart"]++
			}
		}
		// every pool of every session reconnects
		w.RunUntil(func() bool {
			for _, n := range w.Nodes {
				if pooled(n) < before[n] {
					return false
				}
			}
			return true
		}, 5*time.Minute)
		w.Quiesce()
	case 2:
		k := 1 + c.Choose("joiners", 2)
		for i := 0; i < k; i++ {
			n := w.AddNode(true)
			n.Joined = true
			w.EmitEvent(&message.TopologyChangeEvent{ChangeType: primitive.TopologyChangeTypeNewNode, Address: &primitive.Inet{Addr: n.IP, Port: 9042}})
			e.Res.Stats["fault.node-join"]++
		}
		// refresh window (10 s) + connect; wait until the joiners have pooled connections
		w.RunUntil(func() bool {
			for _, n := range w.Nodes {
				if n.Joined {
					ok := false
					for _, bc := range n.LiveConns() {
						if bc.Started && !bc.Control {
							ok = true
						}
					}
					if !ok {
						return false
					}
				}
			}
			return true
		}, 5*time.Minute)
		w.Quiesce()
	}

	// phase 2: executes and batches of the prepared ids, enough to reach every host
	perClient := (len(w.Nodes)*p.NumConns)*2 + 4 + c.Choose("extraexec", 10)
	for i := range f.sent {
		f.sent[i] = 0
	}
	f.p.OpsPerClient = perClient
	//                 query prep exec batch
	f.p.Kinds = []int{0, 0, 8, 4}
	f.p.PreparedBatches = true
	if shape == 1 && c.Choose("midrestart", 2) == 1 {
		f.faults = []*trigFault{{at: len(w.AttemptOrder) + 1 + c.Choose("restartat", perClient), kind: 3}}
	}
	w.OnStep = f.stepHook
	w.RunUntil(f.workDone, time.Hour)
	w.Workload = nil
	for _, n := range w.Nodes {
		if !n.Up {
			n.Restart()
		}
	}
	f.pending = nil
	drained := w.RunUntil(f.allAnswered, 10*time.Minute)
	if (shape == 0 || shape == 1) && drained && !w.Stopped() && c.Choose("burst-after-forgetting", 6) == 5 {
		// every node has lost its statements (a rolling restart) and an application that did not
		// notice sends a burst: dozens of EXECUTEs per backend connection are answered UNPREPARED
		// before the first re-preparation is answered. All of them are repaired and answered.
		if ups := f.usablePreps(); len(ups) > 0 {
			pi := ups[c.Choose("burst-stmt", len(ups))]
			if cl := pi.by; cl.Connected() {
				for _, n := range w.Nodes {
					n.Prepared = map[string]string{}
				}
				save := w.Cfg.WPeer
				w.Cfg.WPeer = 0
				for i := 40 * len(w.Nodes) * p.NumConns; i > 0; i-- {
					tok := w.NewToken()
					cl.Send("execute", tok, world.ExecMsg(pi.id, pi.rmid, tok, primitive.ConsistencyLevelOne), nil)
				}
				w.Quiesce()
				w.Cfg.WPeer = save
				drained = w.RunUntil(f.allAnswered, 10*time.Minute)
				e.Res.Stats["probe.c08.burst_of_executes_after_every_node_forgot"]++
			}
		}
	}
	e.Res.Sample = fmt.Sprintf("shape=%s stmts/client=%d execs/client=%d %s", []string{"plain", "restarts", "late-joiners", "re-prepare-failures"}[shape], nStmts, perClient, f.sample())
	e.Res.Shape = fmt.Sprintf("s%d h%d c%d cl%d", shape, p.Hosts, p.NumConns, p.Clients)
	if w.Stopped() {
		return
	}
	// every EXECUTE/BATCH has exactly one reply
	reprepFailures := 0
	for _, cl := range f.clients {
		if !cl.Connected() {
			if !cl.Gone {
				w.Violate("c08-drain", "client-connection-closed-by-proxy", fmt.Sprintf("%s was closed by the proxy", cl))
				return
			}
			continue
		}
		for _, r := range cl.Reqs {
			if len(r.Replies) == 0 {
				blocked, _ := blockedReport(e.S)
				w.Violate("c08-drain", "execute-not-answered", fmt.Sprintf("%s got no reply (drained=%v, attempts %s); blocked: [%s]", r, drained, traceOf(w, r.Token), blocked))
				return
			}
		}
	}
	// with every re-preparation succeeding and no connection lost, EXECUTE and BATCH succeed on
	// whichever host the proxy picked
	anyReprepFailure, anyLoss := false, false
	for _, pi := range f.preps {
		for k, a := range w.Attempts[pi.token] {
			if k > 0 && (a.Dropped || (a.Replied && a.Outcome != "ok")) {
				anyReprepFailure = true
			}
		}
	}
	for _, a := range w.AttemptOrder {
		if a.Dropped {
			anyLoss = true
		}
	}
	if !anyReprepFailure && !anyLoss && len(w.BadFrames) == 0 && len(w.UnexpectedAtBackend) == 0 {
		for _, cl := range f.clients {
			for _, r := range cl.Reqs {
				ri := f.info[r]
				if ri == nil || (ri.kind != "execute" && ri.kind != "batch") {
					continue
				}
				if em, isErr := replyMsg(r).(message.Error); isErr {
					if cfg.MaxStreams > 0 && strings.Contains(em.GetErrorMessage(), "no more hosts") {
						// with four stream ids per connection "every host was tried and had no free id" is a
						// legitimate outcome of the load, not of the prepared cache
						e.Res.Stats["probe.c08.no_free_stream_id_on_any_host"]++
						continue
					}
					w.Violate("c08-success", "execute-failed-although-statements-cached("+ri.kind+")", fmt.Sprintf("%s was answered with %v although every statement it uses is in the prepared cache, every re-preparation succeeded and no connection was lost; attempts %s", r, em, traceOf(w, r.Token)))
					return
				}
				e.Res.Stats["oracle.c08.successes_checked"]++
			}
		}
	}
	// a failed re-preparation moves the request to another host (or ends in the proxy's own error
	// when no host is left): the error of a PREPARE the client never sent is not its answer
	for _, cl := range f.clients {
		for _, r := range cl.Reqs {
			ri := f.info[r]
			if ri == nil || (ri.kind != "execute" && ri.kind != "batch") {
				continue
			}
			if em, isErr := replyMsg(r).(message.Error); isErr && strings.Contains(em.GetErrorMessage(), "re-prepare refused") {
				w.Violate("c08-failover", "re-prepare-error-reached-client("+ri.kind+")", fmt.Sprintf("%s was answered with %v, the error a node gave to the proxy's own re-PREPARE, instead of moving on to the next host; attempts %s", r, em, traceOf(w, r.Token)))
				return
			}
		}
	}
	// a failed re-preparation moves the request to another host (or ends in an error reply)
	for _, pi := range f.preps {
		atts := w.Attempts[pi.token]
		for k, a := range atts {
			if k == 0 || !a.Replied || a.Outcome == "ok" {
				continue
			}
			reprepFailures++
		}
	}
	e.Res.Stats["probe.c08.reprepare_failures"] += reprepFailures
	nodesHit := map[string]bool{}
	for _, a := range w.AttemptOrder {
		if a.OpCode == primitive.OpCodeExecute || a.OpCode == primitive.OpCodeBatch {
			nodesHit[a.Node.Name] = true
		}
	}
	if len(nodesHit) == len(w.Nodes) {
		e.Res.Stats["probe.c08.every_host_executed"]++
	}
	for _, n := range w.Nodes {
		if n.Joined && nodesHit[n.Name] {
			e.Res.Stats["probe.c08.late_joiner_executed"]++
		}
	}
	e.Res.Stats["oracle.c08.executes_checked"] += len(w.AttemptOrder)
	// the proxy re-prepares with the PREPARE frame it cached; the target connection must be able to decode it
	for _, bf := range w.BadFrames {
		kind := "frame"
		if len(bf.Raw) > 4 && bf.Raw[4] == byte(primitive.OpCodePrepare) {
			kind = "re-prepare"
		}
		// The known finding (known_findings.json) is precisely this: a PREPARE frame that is well-formed
		// for the session of the client that prepared the statement - compressed with that session's
		// codec - replayed on a connection that negotiated another codec or none. A replayed frame that
		// is well-formed under no codec at all is something else.
		sig := kind + "-not-decodable-on-target-connection"
		if kind == "re-prepare" {
			foreign := false
			for _, comp := range []string{"", "lz4", "snappy"} {
				if comp != bf.Conn.Compression && world.DecodesUnder(comp, bf.Raw) {
					foreign = true
				}
			}
			if !foreign {
				sig = "re-prepare-malformed-under-every-codec"
			}
		}
		w.Violate("c08-badframe", sig,
			fmt.Sprintf("backend connection %s (compression %q, version %s) received a %s frame it cannot decode: %s; header % x", bf.Conn, bf.Conn.Compression, versionOf(bf.Conn), kind, bf.Err, bf.Raw[:min(9, len(bf.Raw))]))
		return
	}
	for _, s := range w.UnexpectedAtBackend {
		if strings.Contains(s, "version") {
			w.Violate("c08-badframe", "re-prepare-with-foreign-protocol-version", s)
			return
		}
	}
	_ = strings.Join
}

// settleSessions waits until every up node has at least one live pooled connection per
// session that exists (approximated by: as many as before the fault).
func (f *fwd) settleSessions(max time.Duration) {
	w := f.w
	w.RunUntil(func() bool {
		for _, n := range w.Nodes {
			if !n.Up {
				continue
			}
			live := 0
			for _, c := range n.LiveConns() {
				if c.Started && !c.Control {
					live++
				}
			}
			if live == 0 {
				return false
			}
		}
		return true
	}, max)
	w.Quiesce()
}

func versionOf(c *world.BackendConn) string { return c.Version.String() }

func p0NumConns(f *fwd) int { return f.p.NumConns }
