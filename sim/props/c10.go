package props

import (
	"bytes"
	"fmt"
	"math/big"
	"net"
	"sort"
	"strings"
	"time"

	"cqlsim/world"

	"github.com/datastax/cql-proxy/proxy"
	"github.com/datastax/go-cassandra-native-protocol/datacodec"
	"github.com/datastax/go-cassandra-native-protocol/datatype"
	"github.com/datastax/go-cassandra-native-protocol/message"
	"github.com/datastax/go-cassandra-native-protocol/primitive"
)

func init() { Scenarios["C10"] = c10 }

type c10peer struct {
	addr   string
	ip     net.IP
	dc     string
	tokens []string
}

// decodeCol decodes a cell under its advertised type with the reference data codecs.
func decodeCol(t datatype.DataType, b []byte, v primitive.ProtocolVersion) (val interface{}, err error) {
	if b == nil {
		return nil, nil
	}
	// bytes the proxy produced that make the reference codec panic (or ask for gigabytes) are
	// undecodable bytes - a finding of the caller -, not a failure of the harness
	defer func() {
		if r := recover(); r != nil {
			val, err = nil, fmt.Errorf("reference codec panicked: %v", r)
		}
	}()
	if c := t.Code(); c == primitive.DataTypeCodeSet || c == primitive.DataTypeCodeList || c == primitive.DataTypeCodeMap {
		if len(b) < 4 {
			return nil, fmt.Errorf("collection of %d bytes has no element count", len(b))
		}
		if n := int64(int32(uint32(b[0])<<24 | uint32(b[1])<<16 | uint32(b[2])<<8 | uint32(b[3]))); n < 0 || n*4 > int64(len(b)) {
			return nil, fmt.Errorf("collection of %d bytes announces %d elements", len(b), n)
		}
	}
	switch t.Code() {
	case primitive.DataTypeCodeVarchar, primitive.DataTypeCodeAscii:
		var s string
		_, err := datacodec.Varchar.Decode(b, &s, v)
		return s, err
	case primitive.DataTypeCodeInet:
		var ip net.IP
		_, err := datacodec.Inet.Decode(b, &ip, v)
		return ip.String(), err
	case primitive.DataTypeCodeUuid, primitive.DataTypeCodeTimeuuid:
		var u primitive.UUID
		_, err := datacodec.Uuid.Decode(b, &u, v)
		return u, err
	case primitive.DataTypeCodeInt:
		var i int32
		_, err := datacodec.Int.Decode(b, &i, v)
		return int(i), err
	case primitive.DataTypeCodeSet, primitive.DataTypeCodeList:
		c, err := datacodec.NewList(datatype.NewList(datatype.Varchar))
		if err != nil {
			return nil, err
		}
		var l []string
		_, err = c.Decode(b, &l, v)
		return strings.Join(l, ","), err
	}
	return nil, fmt.Errorf("no decoder for advertised type %v", t)
}

type c10row map[string]interface{}

// readTable runs a SELECT and decodes the result: column names in order and the rows.
//
// How the statement travels is the run's choice (c10Mode): as a QUERY, as PREPARE + EXECUTE, or as
// PREPARE + EXECUTE with the SKIP_METADATA flag - then the rows come without column
// specifications and are read with the columns the PREPARED result announced, as a driver does.
func c10select(w *world.World, cl *world.Client, text string) ([]string, []c10row, string) {
	mode := 0
	if c10Mode != nil {
		mode = c10Mode()
	}
	if mode == 0 {
		r := cl.Send("system", "", world.QueryMsg(text, primitive.ConsistencyLevelOne), nil)
		if !w.RunUntil(func() bool { return len(r.Replies) > 0 }, time.Minute) {
			return nil, nil, "no reply to " + text
		}
		return c10decode(cl, r, text)
	}
	p := cl.Send("prepare", "", &message.Prepare{Query: text}, nil)
	if !w.RunUntil(func() bool { return len(p.Replies) > 0 }, time.Minute) {
		return nil, nil, "no reply to PREPARE of " + text
	}
	pr, ok := replyMsg(p).(*message.PreparedResult)
	if !ok {
		return nil, nil, fmt.Sprintf("PREPARE of %s answered with %v", text, replyMsg(p))
	}
	ex := &message.Execute{QueryId: pr.PreparedQueryId, Options: &message.QueryOptions{Consistency: primitive.ConsistencyLevelOne, SkipMetadata: mode == 2}}
	if cl.Version.SupportsResultMetadataId() {
		ex.ResultMetadataId = pr.ResultMetadataId
	}
	r := cl.Send("system", "", ex, nil)
	if !w.RunUntil(func() bool { return len(r.Replies) > 0 }, time.Minute) {
		return nil, nil, "no reply to EXECUTE of " + text
	}
	what := "EXECUTE of " + text
	if mode == 2 {
		what += " (SKIP_METADATA)"
	}
	var announced []*message.ColumnMetadata
	if pr.ResultMetadata != nil {
		announced = pr.ResultMetadata.Columns
	}
	return c10decodeWith(cl, r, what, announced)
}

// c10Mode is set by the scenario at the start of every run.
var c10Mode func() int

// c10decode decodes the answer to a SELECT that has been replied to.
func c10decode(cl *world.Client, r *world.ClientReq, text string) ([]string, []c10row, string) {
	return c10decodeWith(cl, r, text, nil)
}

// c10decodeWith: announced are the columns of the PREPARED result, used when the rows carry none.
func c10decodeWith(cl *world.Client, r *world.ClientReq, text string, announced []*message.ColumnMetadata) ([]string, []c10row, string) {
	rr, ok := replyMsg(r).(*message.RowsResult)
	if !ok {
		return nil, nil, fmt.Sprintf("%s answered with %v", text, replyMsg(r))
	}
	if len(rr.Metadata.Columns) == 0 && rr.Metadata.ColumnCount > 0 && announced != nil {
		cp := *rr.Metadata
		cp.Columns = announced
		rr = &message.RowsResult{Metadata: &cp, Data: rr.Data}
		text += " [rows without column specifications, read with the PREPARED result's]"
	}
	var names []string
	for _, c := range rr.Metadata.Columns {
		names = append(names, c.Name)
	}
	if int(rr.Metadata.ColumnCount) != len(names) {
		return nil, nil, fmt.Sprintf("%s: column count %d but %d columns described", text, rr.Metadata.ColumnCount, len(names))
	}
	var rows []c10row
	for _, row := range rr.Data {
		if len(row) != len(names) {
			return nil, nil, fmt.Sprintf("%s: a row has %d cells for %d columns", text, len(row), len(names))
		}
		m := c10row{}
		for i, cell := range row {
			v, err := decodeCol(rr.Metadata.Columns[i].Type, cell, cl.Version)
			if err != nil {
				return nil, nil, fmt.Sprintf("%s: column %s does not decode under its advertised type %v: %v", text, names[i], rr.Metadata.Columns[i].Type, err)
			}
			m[names[i]] = v
		}
		rows = append(rows, m)
	}
	return names, rows, ""
}

func ip16(ip net.IP) []byte { return ip.To16() }

// C10 — virtual system.local / system.peers present a correct, mutually consistent ring.
func c10(e *Env) {
	c10Mode = func() int { return e.C.Choose("c10transport", 4) % 3 } // query twice as often as each prepared form
	c := e.C
	cfg := swarmWorld(e)
	cfg.WClock = 0
	cfg.Hosts = 1 + c.Choose("hosts", 2)
	cfg.DSE = c.Choose("dse", 2) == 1
	if cfg.DSE {
		cfg.BackendMax = primitive.ProtocolVersionDse2
	}
	cfg.KeepLog = e.Keep
	w := world.New(cfg, e.S, e.N, e.C)
	e.W = w
	var contact []string
	for _, n := range w.Nodes {
		contact = append(contact, n.Addr)
	}
	// Some backends span several data centers; the proxy's contact point is then one particular
	// node (not necessarily the one with the lowest address), and where nothing is configured the
	// proxy's local data center is that node's.
	backendDC := "dc1"
	if c.Choose("multidc", 3) == 2 {
		cfg.Hosts = 2 + c.Choose("mdchosts", 2)
		for len(w.Nodes) < cfg.Hosts {
			w.AddNode(true)
		}
		for i, n := range w.Nodes {
			n.DC = []string{"dc-b", "dc-a", "dc-c"}[(i+c.Choose("dcrot", 3))%3]
		}
		cp := w.Nodes[c.Choose("contactnode", len(w.Nodes))]
		contact = []string{cp.Addr}
		backendDC = cp.DC
		e.Res.Stats["probe.c10.multi_dc_backend"]++
	}
	// the shared peer list
	nPeers := c.Choose("npeers", 17)
	explicitDC := c.Choose("explicitdc", 2) == 1
	explicitTok := c.Choose("explicittok", 4) == 3
	var list []c10peer
	used := map[string]bool{}
	for len(list) < nPeers {
		var addr string
		k := len(list)
		if c.Choose("v6", 3) == 2 {
			// (prefixes that sort before and after the IPv4 octets in use, whichever byte form is compared)
			addr = fmt.Sprintf("%s::%x:%x", []string{"fd00", "2001:db8", "fe80", "64:ff9b"}[c.Choose("v6prefix", 4)], c.Choose("v6a", 4), 1+k)
		} else {
			addr = fmt.Sprintf("%d.%d.0.%d", []int{10, 172, 192, 9, 127, 254}[c.Choose("v4a", 6)], c.Choose("v4b", 3), 1+k)
		}
		if used[addr] {
			continue
		}
		used[addr] = true
		p := c10peer{addr: addr, ip: net.ParseIP(addr)}
		if explicitDC {
			p.dc = []string{"dc-east", "dc-west", "dc1"}[c.Choose("peerdc", 3)]
		}
		if explicitTok {
			p.tokens = []string{fmt.Sprint(-9000000000000000000 + int64(k)*1000000007), fmt.Sprint(int64(k) * 31)}[:1+c.Choose("ntok", 2)]
		}
		list = append(list, p)
	}
	// which entries run as proxies (at most 4); a proxy outside the list is possible when the list lacks "self"
	type inst struct {
		self    c10peer
		inList  bool
		pi      *world.ProxyInst
		cl      *world.Client
		local   c10row
		peers   []c10row
		localDC string
	}
	var insts []*inst
	if nPeers == 0 {
		insts = append(insts, &inst{self: c10peer{addr: "10.9.9.9", ip: net.ParseIP("10.9.9.9")}})
	} else {
		order := c05perm(e, nPeers)
		k := 1 + c.Choose("ninst", min(4, nPeers))
		for _, i := range order[:k] {
			insts = append(insts, &inst{self: list[i], inList: true})
		}
	}
	selfInList := c.Choose("selfinlist", 2) == 1
	for i, in := range insts {
		in := in
		var peers []proxy.PeerConfig
		for _, p := range list {
			if p.addr == in.self.addr && !selfInList {
				continue
			}
			peers = append(peers, proxy.PeerConfig{RPCAddr: p.addr, DC: p.dc, Tokens: p.tokens})
		}
		in.pi = w.StartProxy(fmt.Sprintf("127.0.0.%d:9042", i+1), contact, func(pc *proxy.Config) {
			pc.RPCAddr = in.self.addr
			pc.DC = in.self.dc
			pc.Tokens = in.self.tokens
			pc.Peers = peers
			if nPeers == 0 && c.Choose("norpc", 2) == 1 {
				pc.RPCAddr = "" // no peers: rpc-address may be left out (the listen address is advertised)
				in.self.addr = ""
			}
		})
		if !w.RunUntil(func() bool { return in.pi.Booted }, 10*time.Minute) || in.pi.BootErr != nil || in.pi.Listener == nil {
			if !w.Stopped() {
				e.Res.Infra = "proxy did not boot: " + errStr(in.pi.BootErr)
			}
			return
		}
		in.localDC = in.self.dc
		if in.localDC == "" {
			in.localDC = backendDC // the data center of the backend node the proxy is connected to
		}
		v := primitive.ProtocolVersion4
		if c.Choose("clv3", 3) == 2 {
			v = 3
		}
		in.cl = w.ConnectClient(in.pi, v)
		st := in.cl.Send("startup", "", message.NewStartup(), nil)
		if !w.RunUntil(func() bool { return len(st.Replies) > 0 }, time.Minute) {
			return
		}
	}
	// some runs: every backend node goes down once the proxies are up: what the proxy answers itself
	// does not depend on a backend being reachable at that moment
	if c.Choose("c10backend-down", 4) == 3 {
		for _, n := range w.Nodes {
			n.Crash()
		}
		w.RunUntil(func() bool { return false }, time.Duration(c.Choose("c10down-since", 20))*time.Second)
		if w.Stopped() {
			return
		}
		e.Res.Stats["probe.c10.system_tables_read_while_no_backend_is_reachable"]++
	}
	fail := func(sig, detail string) { w.Violate("c10", sig, detail) }
	// expected tokens when they are computed: address order from the minimum token
	expectTokens := map[string]string{}
	if !explicitTok {
		for _, in := range insts {
			// every proxy computes over its own node set: itself plus the listed peers
			var nodes []c10peer
			nodes = append(nodes, in.self)
			for _, p := range list {
				if p.addr != in.self.addr {
					nodes = append(nodes, p)
				}
			}
			if in.self.addr == "" {
				continue
			}
			sort.Slice(nodes, func(i, j int) bool { return bytes.Compare(ip16(nodes[i].ip), ip16(nodes[j].ip)) < 0 })
			nCfg := len(list)
			if !selfInList && in.inList {
				nCfg--
			}
			step := new(big.Int).SetUint64(^uint64(0)/uint64(nCfg+1) + 1)
			tok := big.NewInt(-1 << 63)
			for _, n := range nodes {
				key := in.self.addr + ">" + n.addr
				expectTokens[key] = tok.String()
				tok = new(big.Int).Add(tok, step)
			}
		}
	}
	essentialLocal := []string{"key", "rpc_address", "data_center", "rack", "tokens", "release_version", "partitioner", "cluster_name", "cql_version", "schema_version", "host_id"}
	essentialPeers := []string{"peer", "rpc_address", "data_center", "rack", "tokens", "release_version", "schema_version", "host_id"}
	if cfg.DSE {
		essentialLocal = append(essentialLocal, "dse_version")
		essentialPeers = append(essentialPeers, "dse_version")
	}
	checkedSelects := 0
	idOf, addrOf := map[string]string{}, map[string]string{}
	noteID := func(where string, row c10row) bool {
		a, id := fmt.Sprint(row["rpc_address"]), fmt.Sprint(row["host_id"])
		if row["rpc_address"] == nil || row["host_id"] == nil {
			return true
		}
		if prev, ok := idOf[a]; ok && prev != id {
			fail("host-id-not-a-function-of-address", fmt.Sprintf("%s: address %s has host_id %s, elsewhere in this run it has %s", where, a, id, prev))
			return false
		}
		if prev, ok := addrOf[id]; ok && prev != a {
			fail("host-id-shared-by-two-addresses", fmt.Sprintf("%s: host_id %s belongs to %s, elsewhere in this run to %s", where, id, a, prev))
			return false
		}
		idOf[a], addrOf[id] = id, a
		return true
	}
	for _, in := range insts {
		who := fmt.Sprintf("proxy %s (dc %q)", in.self.addr, in.self.dc)
		lnames, lrows, bad := c10select(w, in.cl, "SELECT * FROM system.local")
		if w.Stopped() {
			return
		}
		if bad != "" {
			fail("local-read-failed", who+": "+bad)
			return
		}
		if len(lrows) != 1 {
			fail("local-row-count", fmt.Sprintf("%s: system.local has %d rows", who, len(lrows)))
			return
		}
		in.local = lrows[0]
		for _, col := range essentialLocal {
			if _, ok := in.local[col]; !ok {
				fail("local-column-missing", fmt.Sprintf("%s: SELECT * FROM system.local lacks column %s (has %v)", who, col, lnames))
				return
			}
		}
		wantLocal := map[string]interface{}{"key": "local", "data_center": in.localDC, "rack": "rack1", "release_version": world.BackendReleaseVersion,
			"partitioner": world.BackendPartitioner, "cluster_name": "cql-proxy", "cql_version": world.BackendCQLVersion}
		if in.self.addr != "" {
			wantLocal["rpc_address"] = in.self.ip.String()
		} else {
			wantLocal["rpc_address"] = "127.0.0." + fmt.Sprint(in.pi.ID+1)
		}
		if cfg.DSE {
			wantLocal["dse_version"] = world.BackendDSEVersion
		}
		if explicitTok && in.inList {
			wantLocal["tokens"] = strings.Join(in.self.tokens, ",")
		} else if t, ok := expectTokens[in.self.addr+">"+in.self.addr]; ok && nPeers > 0 && !(nPeers == 1 && in.inList && true && len(list) == 1 && selfInList) {
			wantLocal["tokens"] = t
		}
		for _, col := range sortedKeysAny(wantLocal) {
			want := wantLocal[col]
			if fmt.Sprint(in.local[col]) != fmt.Sprint(want) {
				fail("local-value-wrong("+col+")", fmt.Sprintf("%s: system.local.%s is %v, the configuration/backend says %v", who, col, in.local[col], want))
				return
			}
		}
		if u, ok := in.local["host_id"].(primitive.UUID); !ok || u[6]>>4 != 3 || u[8]>>6 != 2 {
			fail("host-id-not-v3", fmt.Sprintf("%s: host_id %v is not a version-3 UUID", who, in.local["host_id"]))
			return
		}
		// host ids are a function of the address (and distinct addresses have distinct ids),
		// whichever proxy or connection presents the node
		if !noteID(who+" system.local", in.local) {
			return
		}
		if c.Choose("c10concurrent", 2) == 1 {
			// several clients read the tables at the same moment: every answer is still the same
			// function of the configuration
			var cls []*world.Client
			var sts []*world.ClientReq
			for j := 2 + c.Choose("c10readers", 2); j > 0; j-- {
				cl := w.ConnectClient(in.pi, primitive.ProtocolVersion4)
				cls = append(cls, cl)
				sts = append(sts, cl.Send("startup", "", message.NewStartup(), nil))
			}
			allReplied := func(rs []*world.ClientReq) func() bool {
				return func() bool {
					for _, r := range rs {
						if len(r.Replies) == 0 {
							return false
						}
					}
					return true
				}
			}
			if !w.RunUntil(allReplied(sts), time.Minute) {
				return
			}
			texts := []string{"SELECT * FROM system.local", "SELECT * FROM system.peers", "SELECT host_id, rpc_address FROM system.local", "SELECT peer, host_id, rpc_address FROM system.peers"}
			var reqs []*world.ClientReq
			var what []string
			for round := 0; round < 2; round++ {
				for _, cl := range cls {
					t := texts[c.Choose("c10readertext", len(texts))]
					reqs = append(reqs, cl.Send("system", "", world.QueryMsg(t, primitive.ConsistencyLevelOne), nil))
					what = append(what, t)
				}
			}
			if !w.RunUntil(allReplied(reqs), time.Minute) {
				if !w.Stopped() {
					fail("local-read-failed", who+": a system-table read among concurrent readers got no reply")
				}
				return
			}
			for i, r := range reqs {
				_, rows, bad := c10decode(r.Client, r, what[i])
				if bad != "" {
					fail("local-read-failed", fmt.Sprintf("%s, one of %d concurrent readers: %s", who, len(cls), bad))
					return
				}
				for _, row := range rows {
					if !noteID(fmt.Sprintf("%s, one of %d concurrent readers, %s", who, len(cls), what[i]), row) {
						return
					}
				}
			}
			for _, cl := range cls {
				cl.Disconnect()
			}
			e.Res.Stats["probe.c10.concurrent_readers"]++
		}
		if in.self.addr == "" {
			// No rpc-address: the proxy advertises the address each client reached it through. A
			// second client comes in through another address of the proxy's host.
			via := []string{"10.77.0.9", "192.168.5.4", "fd00::77"}[c.Choose("c10via", 3)]
			cl2 := w.ConnectClientVia(in.pi, primitive.ProtocolVersion4, via)
			st2 := cl2.Send("startup", "", message.NewStartup(), nil)
			if !w.RunUntil(func() bool { return len(st2.Replies) > 0 }, time.Minute) {
				return
			}
			_, rows2, bad2 := c10select(w, cl2, []string{"SELECT * FROM system.local", "SELECT host_id, rpc_address FROM system.local", "SELECT rpc_address, host_id, key FROM system.local"}[c.Choose("c10viasel", 3)])
			if w.Stopped() {
				return
			}
			if bad2 != "" || len(rows2) != 1 {
				fail("local-read-failed", fmt.Sprintf("%s, client connected through %s: %s (%d rows)", who, via, bad2, len(rows2)))
				return
			}
			if got := fmt.Sprint(rows2[0]["rpc_address"]); got != net.ParseIP(via).String() {
				fail("local-value-wrong(rpc_address)", fmt.Sprintf("%s, client connected through %s: system.local.rpc_address is %s", who, via, got))
				return
			}
			if !noteID(fmt.Sprintf("%s system.local of the client connected through %s", who, via), rows2[0]) {
				return
			}
			// and the first client still sees its own
			_, rows1, _ := c10select(w, in.cl, "SELECT rpc_address, host_id FROM system.local")
			if len(rows1) == 1 && !noteID(who+" system.local (first client again)", rows1[0]) {
				return
			}
			e.Res.Stats["probe.c10.second_listen_address"]++
		}
		pnames, prows, bad := c10select(w, in.cl, "SELECT * FROM system.peers")
		if w.Stopped() {
			return
		}
		if bad != "" {
			fail("peers-read-failed", who+": "+bad)
			return
		}
		in.peers = prows
		wantPeers := 0
		for _, p := range list {
			if p.addr != in.self.addr {
				wantPeers++
			}
		}
		if len(prows) != wantPeers {
			fail("peers-row-count", fmt.Sprintf("%s: system.peers has %d rows for %d configured peers other than itself", who, len(prows), wantPeers))
			return
		}
		for _, row := range prows {
			for _, col := range essentialPeers {
				if _, ok := row[col]; !ok {
					fail("peers-column-missing", fmt.Sprintf("%s: SELECT * FROM system.peers lacks column %s (has %v)", who, col, pnames))
					return
				}
			}
			var cfgp *c10peer
			for i := range list {
				if list[i].ip.String() == fmt.Sprint(row["peer"]) {
					cfgp = &list[i]
				}
			}
			if cfgp == nil || cfgp.addr == in.self.addr {
				fail("peers-unknown-row", fmt.Sprintf("%s: system.peers lists %v which is not a configured peer (or is the proxy itself)", who, row["peer"]))
				return
			}
			wantDC := cfgp.dc
			if wantDC == "" {
				wantDC = in.localDC
			}
			want := map[string]interface{}{"rpc_address": cfgp.ip.String(), "data_center": wantDC, "rack": "rack1", "release_version": world.BackendReleaseVersion}
			if explicitTok {
				want["tokens"] = strings.Join(cfgp.tokens, ",")
			} else if t, ok := expectTokens[in.self.addr+">"+cfgp.addr]; ok {
				want["tokens"] = t
			}
			for _, col := range sortedKeysAny(want) {
				wv := want[col]
				if fmt.Sprint(row[col]) != fmt.Sprint(wv) {
					fail("peers-value-wrong("+col+")", fmt.Sprintf("%s: system.peers[%s].%s is %v, the configuration says %v", who, cfgp.addr, col, row[col], wv))
					return
				}
			}
			if !noteID(who+" system.peers", row) {
				return
			}
			if u, ok := row["host_id"].(primitive.UUID); !ok || u[6]>>4 != 3 {
				fail("host-id-not-v3", fmt.Sprintf("%s: peers host_id %v is not a version-3 UUID", who, row["host_id"]))
				return
			}
		}
		// generated selector lists over the advertised columns
		for q := 0; q < 3+c.Choose("nsel", 8); q++ {
			table, names, rows := "local", lnames, lrows
			if c.Choose("tbl", 2) == 1 {
				table, names, rows = "peers", pnames, prows
			}
			var sels, wantNames []string
			var wantVals []func(r c10row) interface{}
			nsel := 1 + c.Choose("nselcols", 5)
			for k := 0; k < nsel; k++ {
				switch c.Choose("selkind", 8) {
				case 0:
					sels = append(sels, "count(*)")
					wantNames = append(wantNames, "count")
					wantVals = append(wantVals, func(c10row) interface{} { return len(rows) })
				case 1:
					col := names[c.Choose("cntcol", len(names))]
					sels = append(sels, "count("+col+")")
					wantNames = append(wantNames, "system.count("+col+")")
					wantVals = append(wantVals, func(c10row) interface{} { return len(rows) })
				case 2:
					sels = append(sels, "now()")
					wantNames = append(wantNames, "system.now()")
					wantVals = append(wantVals, nil)
				case 3:
					col := names[c.Choose("alcol", len(names))]
					alias := fmt.Sprintf("a%d", k)
					sels = append(sels, col+" AS "+alias)
					wantNames = append(wantNames, alias)
					wantVals = append(wantVals, func(r c10row) interface{} { return r[col] })
				default:
					col := names[c.Choose("col", len(names))]
					sels = append(sels, col)
					wantNames = append(wantNames, col)
					wantVals = append(wantVals, func(r c10row) interface{} { return r[col] })
				}
			}
			if c.Choose("star", 8) == 7 {
				sels, wantNames, wantVals = []string{"*"}, names, nil
			}
			text := "SELECT " + strings.Join(sels, ", ") + " FROM system." + table
			gotNames, gotRows, bad := c10selectDup(w, in.cl, text)
			if w.Stopped() {
				return
			}
			if bad != "" {
				fail("projection-failed", who+": "+bad)
				return
			}
			if strings.Join(gotNames, "|") != strings.Join(wantNames, "|") {
				fail("projection-columns", fmt.Sprintf("%s: %s returned columns %v, requested %v", who, text, gotNames, wantNames))
				return
			}
			if len(gotRows) != len(rows) {
				fail("projection-row-count", fmt.Sprintf("%s: %s returned %d rows, the table has %d", who, text, len(gotRows), len(rows)))
				return
			}
			for ri, gr := range gotRows {
				for ci := range wantNames {
					if wantVals == nil || wantVals[ci] == nil {
						continue
					}
					if wv := wantVals[ci](rows[ri]); fmt.Sprint(gr[ci]) != fmt.Sprint(wv) {
						fail("projection-value", fmt.Sprintf("%s: %s row %d column %s is %v, expected %v", who, text, ri, wantNames[ci], gr[ci], wv))
						return
					}
				}
			}
			checkedSelects++
		}
	}
	// mutual consistency: what A says about itself is what B says about A
	pairs := 0
	for _, a := range insts {
		for _, b := range insts {
			if a == b || a.self.addr == "" {
				continue
			}
			var row c10row
			for _, r := range b.peers {
				if fmt.Sprint(r["peer"]) == a.self.ip.String() {
					row = r
				}
			}
			if row == nil {
				fail("ring-member-missing", fmt.Sprintf("proxy %s does not list proxy %s among its peers", b.self.addr, a.self.addr))
				return
			}
			for _, col := range []string{"data_center", "tokens", "host_id", "rpc_address"} {
				if explicitDC == false && col == "data_center" && a.localDC != b.localDC {
					continue
				}
				if fmt.Sprint(row[col]) != fmt.Sprint(a.local[col]) {
					fail("ring-disagreement("+col+")", fmt.Sprintf("proxy %s presents itself with %s=%v, proxy %s presents it with %s=%v", a.self.addr, col, a.local[col], b.self.addr, col, row[col]))
					return
				}
			}
			pairs++
		}
	}
	// distinct tokens over the ring as one proxy presents it
	for _, in := range insts {
		seen := map[string]string{fmt.Sprint(in.local["tokens"]): "local"}
		for _, r := range in.peers {
			t := fmt.Sprint(r["tokens"])
			if other, dup := seen[t]; dup && !explicitTok {
				fail("tokens-not-distinct", fmt.Sprintf("proxy %s assigns token %s to both %v and %s", in.self.addr, t, r["peer"], other))
				return
			}
			seen[t] = fmt.Sprint(r["peer"])
		}
	}
	e.Res.Stats["oracle.c10.selects_checked"] += checkedSelects
	e.Res.Stats["oracle.c10.proxy_pairs_checked"] += pairs
	e.Res.Nontrivial = true
	e.Res.Sample = fmt.Sprintf("peers=%d (explicit dc=%v tokens=%v, self listed=%v) proxies=%d dse=%v: %d generated SELECTs, %d proxy pairs compared", nPeers, explicitDC, explicitTok, selfInList, len(insts), cfg.DSE, checkedSelects, pairs)
	e.Res.Shape = fmt.Sprintf("p%d i%d dse%v dc%v tok%v", nPeers, len(insts), cfg.DSE, explicitDC, explicitTok)
}

// c10selectDup is c10select for projections that may repeat a column: rows are returned as ordered cells.
func c10selectDup(w *world.World, cl *world.Client, text string) ([]string, [][]interface{}, string) {
	r := cl.Send("system", "", world.QueryMsg(text, primitive.ConsistencyLevelOne), nil)
	if !w.RunUntil(func() bool { return len(r.Replies) > 0 }, time.Minute) {
		return nil, nil, "no reply to " + text
	}
	rr, ok := replyMsg(r).(*message.RowsResult)
	if !ok {
		return nil, nil, fmt.Sprintf("%s answered with %v", text, replyMsg(r))
	}
	var names []string
	for _, c := range rr.Metadata.Columns {
		names = append(names, c.Name)
	}
	var rows [][]interface{}
	for _, row := range rr.Data {
		if len(row) != len(names) {
			return nil, nil, fmt.Sprintf("%s: a row has %d cells for %d columns", text, len(row), len(names))
		}
		var cells []interface{}
		for i, cell := range row {
			v, err := decodeCol(rr.Metadata.Columns[i].Type, cell, cl.Version)
			if err != nil {
				return nil, nil, fmt.Sprintf("%s: column %s does not decode under its advertised type %v: %v", text, names[i], rr.Metadata.Columns[i].Type, err)
			}
			cells = append(cells, v)
		}
		rows = append(rows, cells)
	}
	return names, rows, ""
}

func sortedKeysAny(m map[string]interface{}) []string {
	k := make([]string, 0, len(m))
	for x := range m {
		k = append(k, x)
	}
	sort.Strings(k)
	return k
}
