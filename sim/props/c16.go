package props

import (
	"context"
	"fmt"
	"net"
	"os"
	"sort"
	"strings"
	"time"

	"cqlsim/simnet"
	"cqlsim/simrt"
	"cqlsim/world"

	"github.com/datastax/cql-proxy/proxy"
	"github.com/datastax/cql-proxy/proxycore"
	"github.com/datastax/go-cassandra-native-protocol/message"
	"github.com/datastax/go-cassandra-native-protocol/primitive"
	"go.uber.org/zap"
)

func init() {
	Scenarios["C16"] = c16
	// the back-off calculator is a sequential component: swept natively once per worker
	Preludes["C16"] = func(tier string, shard int) *Result {
		res := &Result{Prop: "C16", Tier: tier, Stats: map[string]int{}, Prelude: true}
		v, n := backoffSweep(shard)
		res.Stats["oracle.c16.backoff_configurations"] = n
		res.Sample = fmt.Sprintf("back-off sweep shard %d: %d (base,max) configurations x 80 attempts x reset", shard%4, n)
		if v != "" {
			res.Violations = []world.Violation{{Oracle: "c16-backoff", Signature: "backoff-out-of-bounds", Detail: v}}
		}
		return res
	}
}

func backoffSweep(shard int) (string, int) {
	bases := []time.Duration{time.Millisecond, 7 * time.Millisecond, 50 * time.Millisecond, 333 * time.Millisecond, time.Second, 2 * time.Second, 5 * time.Second, 30 * time.Second, time.Minute, 10 * time.Minute, time.Hour}
	maxes := []time.Duration{time.Millisecond, 10 * time.Millisecond, 100 * time.Millisecond, time.Second, 10 * time.Second, time.Minute, 10 * time.Minute, time.Hour, 24 * time.Hour}
	n := 0
	for bi, base := range bases {
		if bi%4 != shard%4 {
			continue
		}
		for _, max := range maxes {
			n++
			p := proxycore.NewReconnectPolicyWithDelays(base, max)
			for round := 0; round < 2; round++ {
				pol := p.Clone()
				lo := base
				if max < lo {
					lo = max
				}
				var prev time.Duration
				for a := 0; a < 80; a++ {
					d := pol.NextDelay()
					if d > max {
						return fmt.Sprintf("base=%v max=%v attempt %d: delay %v exceeds the maximum", base, max, a, d), n
					}
					if d < lo {
						return fmt.Sprintf("base=%v max=%v attempt %d: delay %v is below min(base,max)=%v", base, max, a, d, lo), n
					}
					if d+35*time.Millisecond < prev {
						return fmt.Sprintf("base=%v max=%v attempt %d: delay shrank from %v to %v without a reset", base, max, a, prev, d), n
					}
					prev = d
				}
				first := p.Clone().NextDelay()
				pol.Reset()
				if d := pol.NextDelay(); d > first+40*time.Millisecond {
					return fmt.Sprintf("base=%v max=%v: first delay after Reset is %v, a fresh policy starts at %v", base, max, d, first), n
				}
			}
		}
	}
	return "", n
}

// probeRound sends n sequential tokenised idempotent requests and returns the set of nodes that served them.
func probeRound(w *world.World, cl *world.Client, n int) (map[string]int, bool) {
	hit := map[string]int{}
	for i := 0; i < n; i++ {
		tok := w.NewToken()
		r := cl.Send("query", tok, world.QueryMsg("SELECT * FROM ks.t WHERE k = '"+tok+"'", primitive.ConsistencyLevelOne), nil)
		if !w.RunUntil(func() bool { return len(r.Replies) > 0 }, 2*time.Minute) {
			return hit, false
		}
		for _, a := range w.Attempts[tok] {
			hit[a.Node.Name]++
		}
	}
	return hit, true
}

func sampleOutage(w *world.World, pi *world.ProxyInst) (time.Duration, bool) {
	var d time.Duration
	done := false
	simrt.Go("outage-sampler", func() {
		d = pi.P.OutageDuration()
		done = true
	})
	ok := w.RunUntil(func() bool { return done }, time.Second)
	return d, ok
}

func keysOf(m map[string]int) string {
	var k []string
	for x := range m {
		k = append(k, x)
	}
	sort.Strings(k)
	return strings.Join(k, ",")
}

// httpGet sends one HTTP request to a SUT listener and returns the status code and body.
func httpGet(w *world.World, lis *simnet.Listener, path string) (int, string) {
	pe := &simnet.PeerEnd{}
	l, err := w.N.Connect(lis, pe, nil, "http-probe")
	if err != nil {
		return -1, err.Error()
	}
	pe.L = l
	l.PeerWrite([]byte("GET " + path + " HTTP/1.1\r\nHost: probe\r\nConnection: close\r\n\r\n"))
	var resp []byte
	done := false
	simrt.Go("http-probe", func() {
		buf := make([]byte, 4096)
		for {
			n, err := pe.Read(buf)
			resp = append(resp, buf[:n]...)
			if err != nil {
				break
			}
		}
		done = true
	})
	w.RunUntil(func() bool { return done }, 30*time.Second)
	if !done {
		if os.Getenv("SIM_TRACE") != "" {
			rep, _ := blockedReport(w.S)
			fmt.Fprintf(os.Stderr, "TRACE http probe unanswered; blocked tasks: %s\n", rep)
			for _, t := range w.S.Tasks() {
				fmt.Fprintf(os.Stderr, "TRACE   task %s state=%v op=%s\n", t, t.State(), t.OpLabel())
			}
		}
		l.PeerReset()
	}
	code := -1
	fmt.Sscanf(string(resp), "HTTP/1.1 %d", &code)
	body := string(resp)
	if i := strings.Index(body, "\r\n\r\n"); i >= 0 {
		body = body[i+4:]
	}
	return code, body
}

// c16Readiness checks the readiness endpoint of the real entry point (proxy.Run --health-check).
func c16Readiness(e *Env, cfg world.Config) {
	c := e.C
	cfg.Hosts = 1 + c.Choose("rhosts", 2)
	cfg.KeepLog = e.Keep
	w := world.New(cfg, e.S, e.N, e.C)
	e.W = w
	e.N.LoggerHook = func(string) (*zap.Logger, error) { return zap.NewNop(), nil }
	rt := []string{"30s", "10s", "45s"}[c.Choose("rtimeout", 3)]
	rtd, _ := time.ParseDuration(rt)
	var cps []string
	for _, n := range w.Nodes {
		cps = append(cps, n.IP.String())
	}
	args := []string{"--contact-points", strings.Join(cps, ","), "--bind", "127.0.0.1:9042", "--health-check", "--http-bind", "127.0.0.1:8000", "--readiness-timeout", rt}
	if cfg.AuthUser != "" {
		args = append(args, "--username", cfg.AuthUser, "--password", cfg.AuthPass)
	}
	ctx, cancel := context.WithCancel(context.Background())
	defer cancel()
	done := false
	simrt.Go("proxy.Run", func() { proxy.Run(ctx, args); done = true })
	servingN := func() int {
		k := 0
		for _, l := range w.N.Listeners() {
			if l.Serving() {
				k++
			}
		}
		return k
	}
	w.RunUntil(func() bool { return done || servingN() >= 2 }, 5*time.Minute)
	if w.Stopped() {
		return
	}
	if done || servingN() < 2 {
		e.Res.Infra = "proxy.Run with --health-check did not start both listeners"
		return
	}
	var httpL *simnet.Listener
	for _, l := range w.N.Listeners() {
		if l.Addr().(*net.TCPAddr).Port == 8000 {
			httpL = l
		}
	}
	expect := func(when string, wantCode int) bool {
		code, body := httpGet(w, httpL, "/readiness")
		if w.Stopped() {
			return false
		}
		if code != wantCode {
			w.Violate("c16-readiness", fmt.Sprintf("readiness-%d-expected-%d", code, wantCode), fmt.Sprintf("%s: GET /readiness answered %d (%s), expected %d (readiness timeout %s)", when, code, strings.TrimSpace(body), wantCode, rt))
			return false
		}
		e.Res.Stats["oracle.c16.readiness_probes_checked"]++
		return true
	}
	if code, _ := httpGet(w, httpL, "/liveness"); code != 200 && !w.Stopped() {
		w.Violate("c16-readiness", "liveness-not-200", fmt.Sprintf("GET /liveness answered %d", code))
		return
	}
	if !expect("control connection up", 200) {
		return
	}
	// total outage: every node goes down
	for _, n := range w.Nodes {
		n.Crash()
	}
	w.Stat("fault.total-outage")
	w.Quiesce()
	t0 := w.Now()
	w.RunUntil(func() bool { return false }, rtd/2)
	if !expect(fmt.Sprintf("%v into the outage (below the readiness timeout)", w.Now()-t0), 200) {
		return
	}
	w.RunUntil(func() bool { return false }, rtd)
	if !expect(fmt.Sprintf("%v into the outage (beyond the readiness timeout)", w.Now()-t0), 503) {
		return
	}
	for _, n := range w.Nodes {
		n.Restart()
	}
	if !w.RunUntil(func() bool { return len(w.ControlConns) > 0 }, 25*time.Minute) {
		if !w.Stopped() {
			w.Violate("c16-failover", "control-connection-not-reestablished", "25 minutes after the nodes came back no control connection exists")
		}
		return
	}
	w.Quiesce()
	if !expect("control connection re-established", 200) {
		return
	}
	e.Res.Nontrivial = true
	e.Res.Sample = fmt.Sprintf("readiness: timeout %s, %d hosts, 200 -> 200 (outage below timeout) -> 503 -> 200 after recovery", rt, cfg.Hosts)
}

// C16 — the proxy tracks backend topology and heals lost backend connections.
func c16(e *Env) {
	c := e.C
	cfg := swarmWorld(e)
	cfg.WClock = 0
	cfg.Hosts = 1 + c.Choose("hosts", 4)
	cfg.NumConns = 1
	cfg.ReconnBase = []time.Duration{50 * time.Millisecond, 500 * time.Millisecond, 2 * time.Second, 5 * time.Second}[c.Choose("base", 4)]
	cfg.ReconnMax = []time.Duration{time.Second, 10 * time.Second, time.Minute, 10 * time.Minute}[c.Choose("max", 4)]
	cfg.MaxSteps = 1500000
	if c.Choose("readiness-shape", 6) == 5 {
		e.Res.Shape = "readiness"
		e.Res.Stats["probe.c16.shape.readiness"]++
		c16Readiness(e, cfg)
		return
	}
	shape := c.Choose("c16shape", 4)
	if shape != 1 {
		// several connections per host (the pool-healing shape reads dial times as those of one slot)
		cfg.NumConns = 1 + c.Choose("c16numconns", 3)
	}
	w, pi := boot(e, cfg)
	if pi.BootErr != nil || pi.Listener == nil {
		if !w.Stopped() {
			e.Res.Infra = "proxy did not boot: " + errStr(pi.BootErr)
		}
		return
	}
	cl := w.ConnectClient(pi, primitive.ProtocolVersion4)
	st := cl.Send("startup", "", message.NewStartup(), nil)
	if !w.RunUntil(func() bool { return len(st.Replies) > 0 }, time.Minute) {
		return
	}
	// liveness bound after the last fault (sum of the configured timeouts plus slack, DESIGN.md §7 C16)
	const refreshWindow, refreshTimeout = 10 * time.Second, 5 * time.Second
	bound := refreshWindow + refreshTimeout + cfg.ReconnMax + 2*cfg.ConnectTimeout + cfg.IdleTimeout + cfg.Heartbeat + 5*time.Second
	names := []string{"topology", "pool-healing", "heartbeat-stall", "control-failover"}
	// with several connections per host: once things have settled every pool is complete again
	poolsComplete := func(what string) bool {
		if cfg.NumConns < 2 {
			return true
		}
		type key struct {
			n        *world.Node
			v        primitive.ProtocolVersion
			comp, ks string
		}
		count := func() map[key]int {
			m := map[key]int{}
			for _, n := range w.Nodes {
				if !n.Up || !n.InCluster || n.Stalled {
					continue
				}
				for _, bc := range n.LiveConns() {
					if bc.Started && !bc.Control && bc.Keyspace != "nosuch" {
						// (what remains of the session of a failed USE is no pool anybody is handed: §10)
						m[key{n, bc.Version, bc.Compression, bc.Keyspace}]++
					}
				}
			}
			return m
		}
		full := func() bool {
			for _, k := range count() {
				if k < cfg.NumConns {
					return false
				}
			}
			return true
		}
		if !w.RunUntil(full, bound) && !w.Stopped() {
			for k, cnt := range count() {
				if cnt < cfg.NumConns {
					w.Violate("c16-healing", "pool-incomplete", fmt.Sprintf("%s: %v after the last fault the session (version %s, compression %q, keyspace %q) has %d of %d connections to %s", what, bound, k.v, k.comp, k.ks, cnt, cfg.NumConns, k.n))
					return false
				}
			}
		}
		return !w.Stopped()
	}
	e.Res.Shape = fmt.Sprintf("%s h%d base=%v max=%v", names[shape], cfg.Hosts, cfg.ReconnBase, cfg.ReconnMax)
	e.Res.Stats["probe.c16.shape."+names[shape]]++
	controlNode := func() *world.Node {
		if len(w.ControlConns) > 0 {
			return w.ControlConns[len(w.ControlConns)-1].Node
		}
		return nil
	}
	switch shape {
	case 0:
		// sequences of additions, removals and restarts; after the last one routing equals the backend's view
		nf := 1 + c.Choose("nfaults", 5)
		if len(w.Nodes) > 2 && c.Choose("node-announces-another-address", 6) == 5 {
			// one node (not the one with the control connection) says something else about itself
			// than its peers say about it: it serves requests, but a control connection that lands
			// on it is refused by the proxy ("host not found in system tables") and moves on
			for _, n := range w.Nodes {
				if n != controlNode() {
					n.AnnounceIP = net.IPv4(10, 0, 9, byte(1+c.Choose("announced", 200)))
					e.Res.Stats["probe.c16.node_announces_another_address"]++
					break
				}
			}
		}
		if c.Choose("failed-use-first", 3) == 2 {
			// some client's USE of a keyspace that does not exist has failed before anything happens
			// to the cluster: the session the proxy tried to create for it is not usable, and its
			// remains must not stand between the cluster and everybody else's view of the membership
			for _, n := range w.Nodes {
				n.Keyspaces = map[string]bool{"ks": true, "system": true}
			}
			cl3 := w.ConnectClient(pi, primitive.ProtocolVersion4)
			st3 := cl3.Send("startup", "", message.NewStartup(), nil)
			w.RunUntil(func() bool { return len(st3.Replies) > 0 }, time.Minute)
			u := cl3.Send("use", "", world.QueryMsg("USE nosuch", primitive.ConsistencyLevelOne), nil)
			w.RunUntil(func() bool { return len(u.Replies) > 0 }, time.Minute)
			for _, n := range w.Nodes {
				n.Keyspaces = nil
			}
			if w.Stopped() {
				return
			}
			e.Res.Stats["probe.c16.failed_use_before_topology_changes"]++
		}
		var cl2 *world.Client // a client with other settings, connected during a refresh (some runs)
		addedAt := map[*world.Node]time.Duration{}
		for _, n := range w.Nodes {
			addedAt[n] = -time.Hour
		}
		for i := 0; i < nf && !w.Stopped(); i++ {
			if cn := controlNode(); cn != nil && c.Choose("peers-query-fails", 4) == 3 {
				// the refresh that the next event triggers fails half-way: system.local answers,
				// system.peers does not (an overloaded coordinator); a later refresh has to put it right
				cn.FailPeersQueries = 1 + c.Choose("peers-query-fails-n", 2)
				e.Res.Stats["probe.c16.peers_query_fails"]++
			}
			switch c.Choose("topofault", 4) {
			case 0:
				if len(w.Nodes) < 6 {
					n := w.AddNode(true)
					n.Joined = true
					addedAt[n] = w.Now()
					if c.Choose("add-preceded-by-schema-event", 3) == 2 {
						// (events of other kinds share the control connection)
						for k := 1 + c.Choose("add-noise", 4); k > 0; k-- {
							w.EmitEvent(&message.SchemaChangeEvent{ChangeType: primitive.SchemaChangeTypeCreated, Target: primitive.SchemaChangeTargetKeyspace, Keyspace: "ks_c16"})
						}
					}
					w.EmitEvent(&message.TopologyChangeEvent{ChangeType: primitive.TopologyChangeTypeNewNode, Address: &primitive.Inet{Addr: n.IP, Port: 9042}})
					w.Stat("fault.node-add")
					if cl2 == nil && c.Choose("session-created-during-refresh", 3) == 2 {
						// a client with other settings (another session of the proxy) makes its first
						// request at the moment the refresh for this event is due: the session that is
						// being created then must end up with the new node like every other session
						t0 := w.Now()
						cl2 = w.ConnectClient(pi, primitive.ProtocolVersion4)
						cl2.Compression = "lz4"
						st2 := cl2.Send("startup", "", &message.Startup{Options: map[string]string{"CQL_VERSION": "3.0.0", "COMPRESSION": "lz4"}}, nil)
						w.RunUntil(func() bool { return len(st2.Replies) > 0 }, time.Second)
						// one node is slow to answer for a few seconds around that moment, so that the
						// new session is still connecting when the refresh completes
						var slow *world.Node
						for _, x := range w.Nodes {
							if x != controlNode() && x != n && x.Up && x.InCluster && c.Choose("slow-handshake", 2) == 1 {
								slow = x
							}
						}
						before := time.Duration(c.Choose("session-before-refresh", 3)) * time.Second
						w.RunUntil(func() bool { return false }, refreshWindow-before-(w.Now()-t0))
						if slow != nil {
							slow.Stalled = true
						}
						tok := w.NewToken()
						cl2.Send("query", tok, world.QueryMsg("SELECT * FROM ks.t WHERE k = '"+tok+"'", primitive.ConsistencyLevelOne), nil)
						if slow != nil {
							w.RunUntil(func() bool { return false }, before+time.Duration(1+c.Choose("slow-for", 4))*time.Second)
							slow.Unstall()
						}
						e.Res.Stats["probe.c16.session_created_during_refresh"]++
					}
				}
			case 1:
				var cands []*world.Node
				for _, n := range w.Nodes {
					if n.InCluster {
						cands = append(cands, n)
					}
				}
				// the proxy can only follow the cluster through a host it already knows: a removal is
				// allowed when some other live member has been part of the cluster for longer than the bound
				// (a node that announces another address cannot carry the control connection: it does not count)
				known := func(x *world.Node) bool {
					return x.Up && x.InCluster && x.AnnounceIP == nil && w.Now()-addedAt[x] > bound
				}
				if len(cands) > 1 {
					n := cands[c.Choose("rmwho", len(cands))]
					other := false
					for _, x := range cands {
						if x != n && known(x) {
							other = true
						}
					}
					if !other {
						continue
					}
					n.InCluster = false
					// a node that has left the ring stops its native transport: it is gone, or at
					// least accepts nothing new while the connections it still has linger (one that
					// kept answering new connections would present itself as a member to a proxy
					// that moved its control connection there)
					if n == controlNode() || c.Choose("rmcrash", 2) == 0 {
						n.Crash()
					} else {
						n.RefuseNew = true
					}
					if c.Choose("rm-announced-down-first", 2) == 1 {
						// a node that leaves is reported DOWN and REMOVED back to back, possibly amid
						// events of other kinds (they share the control connection)
						for k := c.Choose("rm-noise", 4); k > 0; k-- {
							w.EmitEvent(&message.SchemaChangeEvent{ChangeType: primitive.SchemaChangeTypeUpdated, Target: primitive.SchemaChangeTargetKeyspace, Keyspace: "ks_c16"})
						}
						w.EmitEvent(&message.StatusChangeEvent{ChangeType: primitive.StatusChangeTypeDown, Address: &primitive.Inet{Addr: n.IP, Port: 9042}})
						e.Res.Stats["probe.c16.down_then_removed"]++
					}
					w.EmitEvent(&message.TopologyChangeEvent{ChangeType: primitive.TopologyChangeTypeRemovedNode, Address: &primitive.Inet{Addr: n.IP, Port: 9042}})
					w.Stat("fault.node-remove")
					if len(w.Nodes) < 6 && c.Choose("node-replaced", 4) == 3 {
						// the node comes back under another address with the identity (host id) it had:
						// a replaced machine, a pod rescheduled - at once or after the refresh for its removal
						if c.Choose("replaced-later", 2) == 1 {
							w.RunUntil(func() bool { return false }, refreshWindow+time.Duration(1+c.Choose("replaced-after", 20))*time.Second)
						}
						r := w.AddNode(true)
						r.Joined = true
						r.HostID = n.HostID
						addedAt[r] = w.Now()
						w.EmitEvent(&message.TopologyChangeEvent{ChangeType: primitive.TopologyChangeTypeNewNode, Address: &primitive.Inet{Addr: r.IP, Port: 9042}})
						e.Res.Stats["probe.c16.node_replaced_under_new_address"]++
					}
				}
			case 2:
				n := w.Nodes[c.Choose("restartwho", len(w.Nodes))]
				if n.InCluster && n.Up {
					n.Crash()
					w.EmitEvent(&message.StatusChangeEvent{ChangeType: primitive.StatusChangeTypeDown, Address: &primitive.Inet{Addr: n.IP, Port: 9042}})
					w.RunUntil(func() bool { return false }, time.Duration(1+c.Choose("downfor", 30))*time.Second)
					n.Restart()
					w.EmitEvent(&message.StatusChangeEvent{ChangeType: primitive.StatusChangeTypeUp, Address: &primitive.Inet{Addr: n.IP, Port: 9042}})
					w.Stat("fault.node-restart")
				}
			case 3:
				// an event burst while a refresh may be pending
				for k := 0; k < 3; k++ {
					n := w.Nodes[c.Choose("burstwho", len(w.Nodes))]
					w.EmitEvent(&message.StatusChangeEvent{ChangeType: primitive.StatusChangeTypeUp, Address: &primitive.Inet{Addr: n.IP, Port: 9042}})
				}
				w.Stat("fault.event-burst")
			}
			if len(w.Nodes) < 6 && c.Choose("reconnect-inside-window-then-join", 5) == 4 {
				// the control connection is lost and re-established *inside* the refresh window of the
				// latest event, and one more node joins right after, announced on the new control
				// connection while the refresh for the earlier event is still pending
				w.RunUntil(func() bool { return false }, time.Duration(c.Choose("lost-after", 3))*time.Second)
				for _, bc := range append([]*world.BackendConn(nil), w.ControlConns...) {
					bc.Reset("fault: control connection lost inside the refresh window")
				}
				back := func() bool {
					for _, cc := range w.ControlConns {
						if cc.AnsweredPeers && !cc.Closed {
							return true
						}
					}
					return false
				}
				if w.RunUntil(back, refreshWindow-4*time.Second) {
					n := w.AddNode(true)
					n.Joined = true
					addedAt[n] = w.Now()
					w.EmitEvent(&message.TopologyChangeEvent{ChangeType: primitive.TopologyChangeTypeNewNode, Address: &primitive.Inet{Addr: n.IP, Port: 9042}})
					w.Stat("fault.node-add")
					e.Res.Stats["probe.c16.node_joined_after_reconnect_inside_refresh_window"]++
				}
			}
			if c.Choose("control-lost-during-refresh", 4) == 3 {
				// the control connection is lost at the moment the refresh for the latest event is
				// due (its queries are in flight or about to be): the reconnect has to make up for it
				w.RunUntil(func() bool { return false }, refreshWindow)
				for _, bc := range append([]*world.BackendConn(nil), w.ControlConns...) {
					bc.Reset("fault: control connection lost while a refresh is due")
				}
				e.Res.Stats["probe.c16.control_lost_during_refresh"]++
			}
			w.RunUntil(func() bool { return false }, time.Duration(c.Choose("between", 20))*time.Second)
		}
		if w.Stopped() {
			return
		}
		// faults stop here: a failure of system.peers that was armed but has not fired yet would be
		// a fault of the future (each costs the proxy a reconnect delay of its own)
		for _, n := range w.Nodes {
			n.FailPeersQueries = 0
		}
		if c.Choose("noisy-window", 3) == 2 {
			// the window is not quiet: a node keeps flapping (status events every few seconds, closer
			// together than the refresh window); the refresh that follows the last real change must
			// still happen within the window, it may not wait for the events to stop
			until := w.Now() + bound
			for w.Now() < until && !w.Stopped() {
				n := w.Nodes[c.Choose("flapwho", len(w.Nodes))]
				if n.Up && n.InCluster {
					w.EmitEvent(&message.StatusChangeEvent{ChangeType: primitive.StatusChangeTypeUp, Address: &primitive.Inet{Addr: n.IP, Port: 9042}})
				}
				w.RunUntil(func() bool { return false }, time.Duration(2+c.Choose("flapevery", 6))*time.Second)
			}
			e.Res.Stats["probe.c16.noisy_refresh_window"]++
		} else {
			w.RunUntil(func() bool { return false }, bound)
		}
		if w.Stopped() {
			return
		}
		// the backend's current view, as the node carrying the control connection reports it:
		// itself (system.local) and the nodes listed in its system.peers
		want := map[string]int{}
		for _, n := range w.Nodes {
			if n.Up && (n.InCluster || n == controlNode()) {
				want[n.Name] = 1
			}
		}
		before := len(w.AttemptOrder)
		tProbe := w.Now()
		hit, ok := probeRound(w, cl, 4*len(w.Nodes)+4)
		if w.Stopped() {
			return
		}
		if !ok {
			w.Violate("c16-topology", "probe-not-answered", "a probe request got no reply after the faults stopped")
			return
		}
		_ = before
		if keysOf(hit) != keysOf(want) {
			w.Violate("c16-topology", "routing-does-not-follow-topology", fmt.Sprintf("%v after the last topology change the backend's cluster is {%s} but probe requests were served by {%s} (counts %v)", bound, keysOf(want), keysOf(hit), hit))
			return
		}
		if cl2 != nil && cl2.Connected() {
			hit2, ok2 := probeRound(w, cl2, 4*len(w.Nodes)+4)
			if w.Stopped() {
				return
			}
			if !ok2 {
				w.Violate("c16-topology", "probe-not-answered", "a probe request of the second client got no reply after the faults stopped")
				return
			}
			if keysOf(hit2) != keysOf(want) {
				w.Violate("c16-topology", "routing-does-not-follow-topology(second session)", fmt.Sprintf("%v after the last topology change the backend's cluster is {%s} but the probe requests of a client whose session was created during a refresh were served by {%s} (counts %v)", bound, keysOf(want), keysOf(hit2), hit2))
				return
			}
		}
		// removed nodes are not dialled any more either (their pools are gone)
		w.RunUntil(func() bool { return false }, cfg.ReconnMax+cfg.ConnectTimeout+5*time.Second)
		// ... and nothing that never was a member is dialled at all
		for addr, ts := range w.DialAttempts {
			if w.NodeByAddr(addr) != nil {
				continue
			}
			for _, t := range ts {
				if t > tProbe {
					w.Violate("c16-topology", "non-member-dialled", fmt.Sprintf("the proxy dialled %s at %v, an address that no node of the cluster has or had", addr, t))
					return
				}
			}
		}
		for _, n := range w.Nodes {
			if n.InCluster || n == controlNode() {
				continue
			}
			for _, t := range w.DialAttempts[n.Addr] {
				if t > tProbe {
					w.Violate("c16-topology", "removed-node-still-dialled", fmt.Sprintf("%s was removed from the cluster, yet the proxy still dialled it at %v (more than %v after the last change)", n, t, bound))
					return
				}
			}
		}
		if !poolsComplete("after the topology changes") {
			return
		}
		e.Res.Stats["oracle.c16.topology_rounds_checked"]++
		e.Res.Nontrivial = true
		e.Res.Sample = fmt.Sprintf("topology: %d faults, final cluster {%s}, probes served by %v", nf, keysOf(want), hit)
	case 1:
		// pooled connection loss and host outage: dial gaps within back-off bounds, reset after success
		if len(w.Nodes) < 2 {
			w.AddNode(true)
			w.EmitEvent(&message.TopologyChangeEvent{ChangeType: primitive.TopologyChangeTypeNewNode, Address: &primitive.Inet{Addr: w.Nodes[1].IP, Port: 9042}})
			w.RunUntil(func() bool { return false }, bound)
		}
		// pick a node that does not carry the control connection, so that every dial to it is its pool slot
		var n *world.Node
		for _, x := range w.Nodes {
			if x != controlNode() && x.Up {
				n = x
			}
		}
		if n == nil {
			return
		}
		downFor := time.Duration(1+c.Choose("outage", 120)) * time.Second
		n.Crash()
		t0 := w.Now()
		mark := len(n.DialTimes)
		w.Stat("fault.host-outage")
		w.RunUntil(func() bool { return false }, downFor)
		dials := append([]time.Duration(nil), n.DialTimes...)
		_ = dials
		n.Restart()
		// it must come back within the bound
		ok := w.RunUntil(func() bool {
			for _, bc := range n.LiveConns() {
				if bc.Started && !bc.Control {
					return true
				}
			}
			return false
		}, bound)
		if w.Stopped() {
			return
		}
		if !ok {
			w.Violate("c16-healing", "pool-connection-not-replaced", fmt.Sprintf("%v after %s came back the proxy has no pooled connection to it", bound, n))
			return
		}
		w.Quiesce()
		// gaps between consecutive dial attempts (refused while the node was down)
		lo := cfg.ReconnBase
		if cfg.ReconnMax < lo {
			lo = cfg.ReconnMax
		}
		ts := w.DialAttempts[n.Addr]
		var during []time.Duration
		for _, t := range ts {
			if t >= t0 {
				during = append(during, t)
			}
		}
		_ = mark
		if len(during) == 0 {
			w.Violate("c16-healing", "no-reconnect-attempt", fmt.Sprintf("no dial to %s after its connections were lost", n))
			return
		}
		if first := during[0] - t0; first > cfg.ReconnBase+time.Second && first > lo+time.Second {
			w.Violate("c16-backoff", "first-reconnect-delay-not-reset", fmt.Sprintf("first dial to %s came %v after the loss; the back-off starts near the base delay %v", n, first, cfg.ReconnBase))
			return
		}
		for i := 1; i < len(during); i++ {
			gap := during[i] - during[i-1]
			if gap < lo-time.Millisecond {
				w.Violate("c16-backoff", "reconnect-gap-below-base", fmt.Sprintf("dials to %s at %v and %v: gap %v is below min(base,max)=%v", n, during[i-1], during[i], gap, lo))
				return
			}
			if gap > cfg.ReconnMax+cfg.ConnectTimeout+time.Second {
				w.Violate("c16-backoff", "reconnect-gap-above-max", fmt.Sprintf("dials to %s at %v and %v: gap %v exceeds max delay %v + connect timeout", n, during[i-1], during[i], gap, cfg.ReconnMax))
				return
			}
		}
		// second loss: the delay sequence starts again near the base
		for _, bc := range n.LiveConns() {
			bc.Reset("fault: second loss")
		}
		t1 := w.Now()
		w.Stat("fault.pool-conn-drop")
		ok = w.RunUntil(func() bool {
			for _, t := range w.DialAttempts[n.Addr] {
				if t > t1 {
					return true
				}
			}
			return false
		}, bound)
		if w.Stopped() {
			return
		}
		if !ok {
			w.Violate("c16-healing", "no-reconnect-attempt", fmt.Sprintf("no dial to %s within %v of the second loss", n, bound))
			return
		}
		var again time.Duration
		for _, t := range w.DialAttempts[n.Addr] {
			if t > t1 {
				again = t - t1
				break
			}
		}
		if again > cfg.ReconnBase+time.Second && again > lo+time.Second {
			w.Violate("c16-backoff", "backoff-not-reset-after-success", fmt.Sprintf("after a successful reconnect the next loss was followed by a dial only %v later; base delay is %v", again, cfg.ReconnBase))
			return
		}
		e.Res.Stats["oracle.c16.dial_gaps_checked"] += len(during)
		e.Res.Nontrivial = true
		e.Res.Sample = fmt.Sprintf("pool-healing: %s down for %v, %d dial attempts, first after %v, after reset %v (base %v max %v)", n, downFor, len(during), during[0]-t0, again, cfg.ReconnBase, cfg.ReconnMax)
	case 2:
		// a node stops answering (heartbeats included): its connections are closed and later replaced
		n := w.Nodes[c.Choose("stallwho", len(w.Nodes))]
		conns := n.LiveConns()
		n.Stalled = true
		if c.Choose("stall-stops-reading", 2) == 1 {
			// the node does not even read from its sockets any more: after a few hundred bytes the
			// proxy's writes to it block - closing such a connection must still work
			n.StallHard(64 + c.Choose("stall-sndbuf", 1000))
			e.Res.Stats["probe.c16.stalled_node_stops_reading"]++
		}
		t0 := w.Now()
		w.Stat("fault.stall-node")
		limit := cfg.IdleTimeout + cfg.Heartbeat + cfg.ConnectTimeout + 2*time.Second
		allClosed := func() bool {
			for _, bc := range conns {
				if !bc.Closed && !(bc.Link != nil && bc.Link.SUTClosed()) { // (a node that does not read does not see the close: the proxy having closed its side is what counts)
					return false
				}
			}
			return true
		}
		ok := false
		if c.Choose("stalltraffic", 2) == 1 {
			// clients keep sending while the node is silent (several requests per heartbeat
			// interval go to the unresponsive connections): requests written are no sign of life
			tc := w.ConnectClient(pi, primitive.ProtocolVersion4)
			tc.Send("startup", "", message.NewStartup(), nil)
			every := time.Duration(2+c.Choose("stalltrafficevery", 8)) * time.Second
			for w.Now()-t0 < limit && !w.Stopped() {
				if ok = w.RunUntil(allClosed, every); ok {
					break
				}
				for k := 0; k < len(w.Nodes); k++ {
					tok := w.NewToken()
					tc.Send("query", tok, world.QueryMsg("SELECT * FROM ks.t WHERE k = '"+tok+"'", primitive.ConsistencyLevelOne), nil)
				}
			}
			e.Res.Stats["probe.c16.stall_with_traffic"]++
		} else {
			ok = w.RunUntil(allClosed, limit)
		}
		if w.Stopped() {
			return
		}
		if !ok {
			var open []string
			for _, bc := range conns {
				if !bc.Closed && !(bc.Link != nil && bc.Link.SUTClosed()) {
					open = append(open, bc.String())
				}
			}
			w.Violate("c16-heartbeat", "unresponsive-connection-not-closed", fmt.Sprintf("%s stopped answering at %v; %v later (idle timeout %v + heartbeat interval %v + connect timeout) the proxy still keeps %v open", n, t0, limit, cfg.IdleTimeout, cfg.Heartbeat, open))
			return
		}
		w.RunUntil(func() bool { return false }, time.Duration(c.Choose("stalledfor", 60))*time.Second)
		n.Unstall()
		// (a connection the proxy gave up on during the stall may still sit at the node, which then
		// reads its STARTUP: a replaced connection is one that requests are routed over)
		pooled := func() bool {
			for _, bc := range n.LiveConns() {
				if bc.Started && !bc.Control {
					return true
				}
			}
			return false
		}
		resumed := w.Now()
		ok = false
		for !ok && !w.Stopped() && w.Now()-resumed < bound {
			if !w.RunUntil(pooled, bound-(w.Now()-resumed)) {
				break
			}
			hit, answered := probeRound(w, cl, 2*len(w.Nodes)+2)
			if w.Stopped() {
				return
			}
			if !answered {
				w.Violate("c16-healing", "probe-not-answered", "a probe request got no reply after the node resumed")
				return
			}
			ok = hit[n.Name] > 0
			if !ok {
				w.RunUntil(func() bool { return false }, 2*time.Second)
			}
		}
		if w.Stopped() {
			return
		}
		if !ok {
			w.Violate("c16-healing", "pool-connection-not-replaced", fmt.Sprintf("%v after %s resumed the proxy has no pooled connection to it that requests are routed over", bound, n))
			return
		}
		if !poolsComplete("after the node resumed") {
			return
		}
		e.Res.Stats["oracle.c16.stalls_checked"]++
		e.Res.Nontrivial = true
		e.Res.Sample = fmt.Sprintf("heartbeat-stall: %s stalled, %d connections closed within %v, replaced after resume", n, len(conns), limit)
	case 3:
		// control connection loss: outage clock and fail-over
		d, ok := sampleOutage(w, pi)
		if w.Stopped() || !ok {
			return
		}
		if d != 0 {
			w.Violate("c16-outage", "outage-nonzero-with-control-connection", fmt.Sprintf("OutageDuration is %v while the control connection is up", d))
			return
		}
		if controlNode() == nil {
			// the proxy reports no outage, so it has a control connection: one on which it asked
			// for the cluster's events (anything else cannot follow the topology)
			if !w.RunUntil(func() bool { return controlNode() != nil }, bound) {
				if !w.Stopped() {
					w.Violate("c16-control", "control-connection-not-registered-for-events", fmt.Sprintf("the proxy reports no outage, but for %v no connection of it has registered for events at any node", bound))
				}
				return
			}
		}
		old := controlNode()
		keepDown := len(w.Nodes) > 1 && c.Choose("keepdown", 2) == 1
		simultaneous := c.Choose("simul", 2) == 1
		// a control connection is established once the node has answered the queries the proxy
		// makes on it (a connection that has merely registered for events is not there yet)
		established := func() bool {
			for _, cc := range w.ControlConns {
				if cc.AnsweredPeers && !cc.Closed {
					return true
				}
			}
			return false
		}
		if len(w.Nodes) > 1 && c.Choose("next-host-silent-after-handshake", 3) == 2 {
			// one of the other hosts completes the handshake of a new control connection and then
			// answers nothing (and does not close): the attempt is given up after the connect
			// time-out and the next host is tried
			for _, n := range w.Nodes {
				if n != old {
					n.SilentControlQueries = 1 + c.Choose("silent-queries", 2)
					e.Res.Stats["probe.c16.host_silent_after_handshake"]++
					break
				}
			}
		}
		if keepDown {
			old.Crash()
		} else {
			for _, bc := range append([]*world.BackendConn(nil), w.ControlConns...) {
				bc.Reset("fault: control connection killed")
			}
			if simultaneous {
				for _, bc := range old.LiveConns() {
					bc.Reset("fault: pooled connection killed together with the control connection")
				}
			}
		}
		t0 := w.Now()
		w.Stat("fault.control-connection-kill")
		w.Quiesce() // the proxy notices the loss (no timer involved)
		d1, ok := sampleOutage(w, pi)
		if w.Stopped() || !ok {
			return
		}
		if !established() {
			wait := time.Duration(1+c.Choose("outwait", 40)) * 40 * time.Millisecond
			w.RunUntil(established, wait)
			if !established() {
				d2, ok := sampleOutage(w, pi)
				if w.Stopped() || !ok {
					return
				}
				el := w.Now() - t0
				if established() {
					// the control connection came back while the sample was being taken (sampling
					// steps the world): the sample says nothing about the outage clock
					e.Res.Stats["probe.c16.outage_sample_overtaken"]++
				} else if d2 <= 0 || d2 < d1 || d2 > el+time.Second || d2 < el-time.Second {
					w.Violate("c16-outage", "outage-clock-wrong", fmt.Sprintf("no control connection for %v but OutageDuration went from %v to %v", el, d1, d2))
					return
				} else {
					e.Res.Stats["oracle.c16.outage_samples_checked"]++
				}
			}
		}
		ok = w.RunUntil(established, bound)
		if w.Stopped() {
			return
		}
		if !ok {
			w.Violate("c16-failover", "control-connection-not-reestablished", fmt.Sprintf("%v after the control connection was lost no backend has a registered control connection on which it answered the proxy's queries", bound))
			return
		}
		w.Quiesce()
		if keepDown && controlNode() == old {
			w.Violate("c16-failover", "control-connection-on-dead-host", "control connection reported on a crashed host")
			return
		}
		d3, ok := sampleOutage(w, pi)
		if w.Stopped() || !ok {
			return
		}
		if d3 != 0 {
			w.Violate("c16-outage", "outage-not-cleared", fmt.Sprintf("the control connection is re-established on %s but OutageDuration is still %v", controlNode(), d3))
			return
		}
		if !poolsComplete("after the control connection failed over") {
			return
		}
		e.Res.Stats["oracle.c16.failovers_checked"]++
		e.Res.Nontrivial = true
		e.Res.Sample = fmt.Sprintf("control-failover: lost on %s (host down=%v, with pooled=%v), outage %v right after, back on %s after %v", old, keepDown, simultaneous, d1, controlNode(), w.Now()-t0)
	}
}
