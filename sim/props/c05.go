package props

import (
	"fmt"
	"sort"
	"strings"
	"time"

	"cqlsim/world"

	"github.com/datastax/go-cassandra-native-protocol/message"
	"github.com/datastax/go-cassandra-native-protocol/primitive"
)

func init() { Scenarios["C05"] = c05 }

// drawC05Outcome draws outcomes with the full field space of the timeout messages, so that
// the policy's decision functions are swept through the wire.
func drawC05Outcome(e *Env, v primitive.ProtocolVersion) world.OutcomeSpec {
	c := e.C
	cl := primitive.ConsistencyLevelQuorum
	switch c.Choose("c05out", 10) {
	case 0, 1:
		return world.OutcomeSpec{Outcome: world.OK}
	case 2:
		rec, bf, dp := int32(c.Choose("rec", 4)), int32(1+c.Choose("bf", 3)), c.Choose("dp", 2) == 1
		cls := world.ClsFinal
		name := fmt.Sprintf("read_timeout(r%d/b%d/d%v)", rec, bf, dp)
		if rec >= bf && !dp {
			cls = world.ClsRetrySameOnce
		}
		return world.OutcomeSpec{Outcome: world.ErrOutcome(name, &message.ReadTimeout{ErrorMessage: "rt", Consistency: cl, Received: rec, BlockFor: bf, DataPresent: dp}), Class: cls}
	case 3:
		wts := []primitive.WriteType{primitive.WriteTypeBatchLog, primitive.WriteTypeSimple, primitive.WriteTypeBatch, primitive.WriteTypeUnloggedBatch, primitive.WriteTypeCounter, primitive.WriteTypeCas, primitive.WriteTypeView, primitive.WriteTypeCdc}
		wt := wts[c.Choose("wt", len(wts))]
		cls := world.ClsWriteTimeout
		if wt == primitive.WriteTypeBatchLog {
			cls = world.ClsRetrySameIdem
		}
		return world.OutcomeSpec{Outcome: world.ErrOutcome("write_timeout("+string(wt)+")", &message.WriteTimeout{ErrorMessage: "wt", Consistency: cl, Received: int32(c.Choose("rec", 3)), BlockFor: int32(1 + c.Choose("bf", 3)), WriteType: wt}), Class: cls, MaybeApplied: true}
	case 4:
		return world.OutcomeSpec{Outcome: world.ErrOutcome("unavailable", &message.Unavailable{ErrorMessage: "un", Consistency: cl, Required: int32(1 + c.Choose("req", 3)), Alive: int32(c.Choose("alive", 3))}), Class: world.ClsNextOnce}
	case 5:
		return world.OutcomeSpec{Outcome: world.ErrOutcome("bootstrapping", &message.IsBootstrapping{ErrorMessage: "boot"}), Class: world.ClsNextAlways}
	case 6:
		switch c.Choose("idemerr", 3) {
		case 0:
			return world.OutcomeSpec{Outcome: world.ErrOutcome("server", &message.ServerError{ErrorMessage: "srv"}), Class: world.ClsNextIdem}
		case 1:
			return world.OutcomeSpec{Outcome: world.ErrOutcome("overloaded", &message.Overloaded{ErrorMessage: "ovl"}), Class: world.ClsNextIdem}
		}
		return world.OutcomeSpec{Outcome: world.ErrOutcome("truncate", &message.TruncateError{ErrorMessage: "trunc"}), Class: world.ClsNextIdem}
	case 7:
		if v >= primitive.ProtocolVersion4 {
			if c.Choose("rf/wf", 2) == 0 {
				return world.OutcomeSpec{Outcome: world.ErrOutcome("read_failure", &message.ReadFailure{ErrorMessage: "rf", Consistency: cl, Received: 1, BlockFor: 2, NumFailures: 1}), Class: world.ClsFailure}
			}
			return world.OutcomeSpec{Outcome: world.ErrOutcome("write_failure", &message.WriteFailure{ErrorMessage: "wf", Consistency: cl, Received: 1, BlockFor: 2, NumFailures: 1, WriteType: primitive.WriteTypeSimple}), Class: world.ClsFailure}
		}
		return world.OutcomeSpec{Outcome: world.ErrOutcome("invalid", &message.Invalid{ErrorMessage: "inv"}), Class: world.ClsFinal}
	case 8:
		fin := []world.OutcomeSpec{
			{Outcome: world.ErrOutcome("invalid", &message.Invalid{ErrorMessage: "inv"})},
			{Outcome: world.ErrOutcome("syntax", &message.SyntaxError{ErrorMessage: "syn"})},
			{Outcome: world.ErrOutcome("unauthorized", &message.Unauthorized{ErrorMessage: "una"})},
			{Outcome: world.ErrOutcome("config", &message.ConfigError{ErrorMessage: "cfg"})},
			{Outcome: world.ErrOutcome("already_exists", &message.AlreadyExists{ErrorMessage: "ae", Keyspace: "ks", Table: "t"})},
			{Outcome: world.ErrOutcome("function_failure", &message.FunctionFailure{ErrorMessage: "ff", Keyspace: "ks", Function: "f", Arguments: []string{"int"}})},
			{Outcome: world.ErrOutcome("protocol", &message.ProtocolError{ErrorMessage: "proto"})},
		}
		return fin[c.Choose("final", len(fin))]
	default:
		if c.Choose("hang?", 4) == 3 {
			// the host hangs: nothing is answered on that connection any more, the proxy closes it
			// itself once heartbeats have gone unanswered for the idle timeout
			return world.OutcomeSpec{Outcome: world.Outcome{Kind: world.OutHang, Name: "hang"}, Class: world.ClsConnLoss}
		}
		if c.Choose("dropkind", 2) == 0 {
			return world.OutcomeSpec{Outcome: world.Outcome{Kind: world.OutSilentDrop, Name: "silent_drop"}, Class: world.ClsConnLoss}
		}
		return world.OutcomeSpec{Outcome: world.Outcome{Kind: world.OutDropNow, Name: "drop_now"}, Class: world.ClsConnLoss}
	}
}

// C05 — retries follow the documented policy, terminate, and fail over to healthy hosts.
// Sequential requests; the attempt trace (host, outcome) of each request and the frame the
// client finally receives are checked against an executable model of the documented default
// policy, which is set-valued where the documentation is ambiguous.
func c05(e *Env) {
	c := e.C
	cfg := swarmWorld(e)
	cfg.WClock = 0
	cfg.IdempotentGraph = c.Choose("idemgraph", 2) == 1
	p := fwdParams{
		Hosts:        1 + c.Choose("hosts", 4),
		NumConns:     1 + c.Choose("numconns", 2),
		Clients:      1,
		OpsPerClient: 6 + c.Choose("ops", 14),
		MaxInflight:  1,
		Kinds:        []int{40, 6, 25, 12, 0, 0, 0, 0, 0, 0, 5, 4},
		Compression:  []string{""},
		Versions:     []primitive.ProtocolVersion{primitive.ProtocolVersion4}, // one session: the proxy's own
		Sequential:   true,
		FaultFree:    true,
	}
	if e.Tier == "thorough" {
		p.OpsPerClient = 10 + c.Choose("ops2", 40)
	}
	// tuning knob: few stream ids per backend connection, so that whatever the proxy counts per
	// connection (requests in flight, ids in use) is near its limit after a handful of requests
	cfg.MaxStreams = []int16{0, 0, 3, 6}[c.Choose("maxstreams", 4)]
	f := newFwd(e, p, cfg)
	if !f.bootOK() || !f.connectClients() {
		return
	}
	// in half of the runs a prepared statement is known only to the node that prepared it: the
	// others answer UNPREPARED once and are repaired by the proxy (C08), in the middle of whatever
	// the retry policy is doing
	f.sharePrepared = c.Choose("statements-known-everywhere", 2) == 0
	w := f.w
	w.OnReply = f.onReply
	w.OnAttempt = f.onAttempt
	f.scriptFn = func(tok string, v primitive.ProtocolVersion) []world.OutcomeSpec {
		n := c.Choose("scriptlen", p.Hosts+3)
		var specs []world.OutcomeSpec
		var outs []world.Outcome
		for i := 0; i < n; i++ {
			s := drawC05Outcome(e, v)
			specs = append(specs, s)
			outs = append(outs, s.Outcome)
		}
		w.Script[tok] = outs
		return specs
	}
	hosts := append([]*world.Node(nil), w.Nodes...)
	sort.Slice(hosts, func(i, j int) bool { return hosts[i].Addr < hosts[j].Addr })
	cl := f.clients[0]
	checked := 0
	forgetful := !f.sharePrepared && c.Choose("forgetful-nodes", 2) == 1
	for op := 0; op < p.OpsPerClient && !w.Stopped(); op++ {
		// world settles: every node that is up has its pool connections - or, in half of the
		// cases, at least one of them (a pool that is still replacing a lost connection is usable)
		f.settleAny = c.Choose("settle-any", 2) == 1
		if !f.settle(5 * time.Minute) {
			e.Res.Stats["c05.unsettled"]++
			break
		}
		// some runs: a node loses its prepared statements now and then (a restart, an eviction): every
		// EXECUTE it sees next is one more UNPREPARED round on that connection
		if forgetful && c.Choose("forgets", 3) == 2 {
			hosts[c.Choose("forgetwho", len(hosts))].Prepared = map[string]string{}
			e.Res.Stats["probe.c05.node_forgot_prepared_statements"]++
		}
		// some hosts are down for the whole request
		down := map[*world.Node]bool{}
		if len(hosts) > 1 && c.Choose("down?", 4) == 3 {
			k := 1 + c.Choose("ndown", len(hosts)-1)
			for _, i := range c05perm(e, len(hosts))[:k] {
				hosts[i].Crash()
				down[hosts[i]] = true
			}
			w.Quiesce()
		}
		before := len(cl.Reqs)
		f.sendOne(0)
		req := cl.Reqs[before]
		ri := f.info[req]
		// in a third of the cases the client has a second, plain request in flight at the same time
		// (written right behind the first): each request walks its own plan, whatever the other does
		var companion *world.ClientReq
		if c.Choose("companion", 3) == 2 {
			tok2 := w.NewToken()
			companion = cl.Send("query", tok2, world.QueryMsg("SELECT * FROM ks.t WHERE k = '"+tok2+"'", primitive.ConsistencyLevelOne), nil)
			e.Res.Stats["probe.c05.second_request_in_flight"]++
		}
		ok := w.RunUntil(func() bool { return len(req.Replies) > 0 && (companion == nil || len(companion.Replies) > 0) }, 10*time.Minute)
		if w.Stopped() {
			break
		}
		if !ok {
			w.Violate("c05-termination", "no-reply", fmt.Sprintf("request %s got no reply within 10 simulated minutes although every attempt was answered or dropped; attempts=%d; %s", req, len(w.Attempts[req.Token]), busiest(e.S)))
			break
		}
		w.Quiesce()
		if v := c05Model(w, ri, hosts, down); v != "" {
			sig := v
			if i := strings.Index(v, ":"); i > 0 {
				sig = v[:i]
			}
			w.Violate("c05-model", sig, fmt.Sprintf("request %s (%s, idempotent=%v, script=%v): %s; observed trace: %s; reply: %v", req, ri.kind, ri.idem, specNames(ri.specs), v, traceOf(w, req.Token), replyMsg(req)))
			break
		}
		checked++
		for _, pp := range f.preps { // (the proxy's own re-PREPAREs of a statement are not scripted)
			if pp.usable {
				delete(w.Script, pp.token)
			}
		}
		for _, n := range hosts {
			if !down[n] {
				continue
			}
			n.Restart()
			for _, pp := range f.preps { // the restarted node learns the statements again (C08 owns re-preparation)
				if pp.usable && f.sharePrepared {
					n.Prepared[fmt.Sprintf("%x", pp.id)] = pp.stmt.Text
				}
			}
		}
	}
	if !w.Stopped() && !f.clientsStillOpen("c05-connection") {
		return
	}
	e.Res.Sample = f.sample()
	e.Res.Shape = fmt.Sprintf("h%d c%d", p.Hosts, p.NumConns)
	w.StatN("oracle.c05.requests_checked_against_model", checked)
}

func c05perm(e *Env, n int) []int {
	p := make([]int, n)
	for i := range p {
		p[i] = i
	}
	for i := n - 1; i > 0; i-- {
		j := e.C.Choose("perm", i+1)
		p[i], p[j] = p[j], p[i]
	}
	return p
}

func specNames(s []world.OutcomeSpec) []string {
	var out []string
	for _, x := range s {
		out = append(out, x.Name)
	}
	return out
}

func traceOf(w *world.World, tok string) string {
	var parts []string
	for _, a := range w.Attempts[tok] {
		o := a.Outcome
		if a.Dropped {
			o += "+connection-lost"
		}
		parts = append(parts, fmt.Sprintf("%s:%s", a.Node.Name, o))
	}
	return "[" + strings.Join(parts, " ") + "]"
}

// settle waits until every up node has its NumConns pooled connections (one session).
func (f *fwd) settle(max time.Duration) bool {
	w := f.w
	cond := func() bool {
		for _, n := range w.Nodes {
			if !n.Up {
				continue
			}
			pooled := 0
			for _, c := range n.LiveConns() {
				if c.Started && !c.Control {
					pooled++
				}
			}
			if pooled < f.p.NumConns && !(f.settleAny && pooled >= 1) {
				return false
			}
		}
		return len(w.ControlConns) > 0 && w.HeldCount() == 0
	}
	for i := 0; i < 20; i++ {
		if !w.RunUntil(cond, max) {
			return false
		}
		// the backend has seen the handshakes; let the proxy finish them (no timer is involved)
		w.Quiesce()
		if cond() {
			return true
		}
	}
	return false
}

// c05Model validates one request's attempt trace and final reply against the documented
// default retry policy. It returns "" or "<rule>: explanation".
func c05Model(w *world.World, ri *reqInfo, hosts []*world.Node, down map[*world.Node]bool) string {
	req := ri.req
	atts := w.Attempts[req.Token]
	reply := replyMsg(req)
	nUp := 0
	for _, h := range hosts {
		if !down[h] {
			nUp++
		}
	}
	specOf := func(i int) world.OutcomeSpec {
		if i < len(ri.specs) {
			return ri.specs[i]
		}
		return world.OutcomeSpec{Outcome: world.OK}
	}
	isNoHosts := func() bool {
		em, ok := reply.(message.Error)
		return ok && strings.Contains(em.GetErrorMessage(), "exhausted query plan")
	}
	// A host that does not know a prepared statement answers UNPREPARED; the proxy prepares it there
	// and executes again on that host. Such a round is no attempt in the sense of the policy: it
	// consumes no outcome of the script and no retry.
	{
		var eff []*world.Attempt
		for i, a := range atts {
			if a.Outcome == "unprepared(auto)" {
				if i+1 >= len(atts) || atts[i+1].Node != a.Node {
					return fmt.Sprintf("unprepared-not-repaired: %s answered UNPREPARED (attempt #%d) and the request was not executed there again after re-preparation", a.Node.Name, i+1)
				}
				continue
			}
			eff = append(eff, a)
		}
		atts = eff
	}
	if len(atts) == 0 {
		if nUp == 0 {
			if !isNoHosts() {
				return "no-hosts-reply: every host is down, so the client must receive the 'no more hosts' error"
			}
			return ""
		}
		return "no-attempt: some host is up and has a connection but the request reached no backend"
	}
	if len(atts) > len(hosts)+1 {
		return fmt.Sprintf("attempt-bound: %d attempts for %d hosts (bound is hosts+1)", len(atts), len(hosts))
	}
	idx := func(n *world.Node) int {
		for i, h := range hosts {
			if h == n {
				return i
			}
		}
		return -1
	}
	first := idx(atts[0].Node)
	// rotation after the first host, down hosts skipped
	var rest []*world.Node
	for k := 1; k < len(hosts); k++ {
		h := hosts[(first+k)%len(hosts)]
		if !down[h] {
			rest = append(rest, h)
		}
	}
	visited := map[*world.Node]bool{atts[0].Node: true}
	retriesMin, retriesMax := 0, 0 // policy retries so far (connection-loss retries may or may not count)
	sameKindRT, sameKindWT, sameKindUN := 0, 0, 0
	cur := atts[0].Node
	specI := 0
	for i, a := range atts {
		if a.Node != cur {
			return fmt.Sprintf("wrong-host: attempt #%d went to %s, the policy prescribes %s", i+1, a.Node.Name, cur.Name)
		}
		sp := specOf(specI)
		specI++
		cls := sp.Class
		if a.Dropped {
			cls = world.ClsConnLoss
		} else if sp.Kind == world.OutOK {
			cls = world.ClsFinal
		}
		// allowed continuations
		allowDeliver, allowSame, allowNext := false, false, false
		onceAny := func(kindCount int) (yes, no bool) {
			// "one retry": either no earlier policy retry at all, or no earlier retry of this kind
			a1 := retriesMin == 0
			a2 := kindCount == 0
			return a1 || a2, !(retriesMax == 0) || !a2
		}
		switch cls {
		case world.ClsFinal, world.ClsFailure, world.ClsWriteTimeout:
			allowDeliver = true
		case world.ClsRetrySameOnce:
			y, n := onceAny(sameKindRT)
			allowSame, allowDeliver = y, n
		case world.ClsRetrySameIdem:
			if ri.idem {
				y, n := onceAny(sameKindWT)
				allowSame, allowDeliver = y, n
			} else {
				allowDeliver = true
			}
		case world.ClsNextOnce:
			y, n := onceAny(sameKindUN)
			allowNext, allowDeliver = y, n
		case world.ClsNextAlways:
			allowNext = true
		case world.ClsNextIdem:
			if ri.idem {
				allowNext = true
			} else {
				allowDeliver = true
			}
		case world.ClsConnLoss:
			if ri.idem {
				allowNext = true
			} else {
				allowDeliver = true
			}
		}
		last := i == len(atts)-1
		if !last {
			nx := atts[i+1].Node
			switch {
			case nx == cur:
				if !allowSame {
					return fmt.Sprintf("unexpected-same-host-retry: after %s on %s (attempt #%d) the request was sent to the same host again", outName(a, sp), cur.Name, i+1)
				}
				switch cls {
				case world.ClsRetrySameOnce:
					sameKindRT++
				case world.ClsRetrySameIdem:
					sameKindWT++
				}
				retriesMin++
				retriesMax++
			default:
				if !allowNext {
					return fmt.Sprintf("unexpected-next-host-retry: after %s on %s (attempt #%d) the request was sent to %s", outName(a, sp), cur.Name, i+1, nx.Name)
				}
				if len(rest) == 0 {
					return fmt.Sprintf("host-tried-twice: attempt #%d went to %s although every host had been tried", i+2, nx.Name)
				}
				want := rest[0]
				rest = rest[1:]
				if nx != want {
					return fmt.Sprintf("wrong-next-host: after %s on %s the next host in rotation with a connection is %s, but attempt #%d went to %s", outName(a, sp), cur.Name, want.Name, i+2, nx.Name)
				}
				if visited[nx] {
					return fmt.Sprintf("host-tried-twice: %s was tried twice", nx.Name)
				}
				visited[nx] = true
				cur = nx
				if cls == world.ClsNextOnce {
					sameKindUN++
				}
				if cls == world.ClsConnLoss {
					// Moving on after a lost connection is no retry in the sense of the policy: the
					// "once" of unavailable, read time-out and batch-log write time-out counts decisions
					// of the policy, and the policy is not asked about a lost connection. (Until wave
					// 16 the model let it count either way; the first UNAVAILABLE after a lost
					// connection could then be delivered although the next host would have answered.)
				} else {
					retriesMin++
					retriesMax++
				}
			}
			continue
		}
		// last attempt: what must the client see?
		em, isErr := reply.(message.Error)
		switch {
		case allowNext && len(rest) == 0 && isNoHosts():
			return "" // plan exhausted
		case allowNext && !allowDeliver && len(rest) > 0:
			return fmt.Sprintf("missing-failover: after %s on %s the policy moves to the next host (%s has a connection) but no further attempt was made", outName(a, sp), cur.Name, rest[0].Name)
		case allowNext && !allowDeliver && len(rest) == 0:
			return fmt.Sprintf("no-hosts-reply: the plan is exhausted after %s on %s, the client must receive the 'no more hosts' error", outName(a, sp), cur.Name)
		case allowSame && !allowDeliver:
			return fmt.Sprintf("missing-same-host-retry: after %s on %s the policy retries once on the same host but no further attempt was made", outName(a, sp), cur.Name)
		}
		// deliver
		if cls == world.ClsConnLoss {
			if !isErr || !(strings.Contains(em.GetErrorMessage(), connLostText)) {
				return fmt.Sprintf("wrong-final-reply: the connection was lost during the last attempt of a non-idempotent request, the client must receive the connection-lost error")
			}
			return ""
		}
		if sp.Kind == world.OutOK {
			if _, ok := reply.(*message.RowsResult); !ok {
				if _, ok2 := reply.(*message.PreparedResult); !ok2 {
					return "wrong-final-reply: the last attempt succeeded but the client did not receive its result"
				}
			}
			return ""
		}
		if !isErr || em.GetErrorCode() != sp.Err.GetErrorCode() || !strings.Contains(em.GetErrorMessage(), req.Token) {
			if allowNext && len(rest) == 0 && isNoHosts() {
				return ""
			}
			return fmt.Sprintf("wrong-final-reply: the last attempt ended in %s, which the policy does not retry here, but the client received something else", sp.Name)
		}
	}
	return ""
}

func outName(a *world.Attempt, sp world.OutcomeSpec) string {
	if a.Dropped {
		return "connection loss"
	}
	return sp.Name
}
