package props

import (
	"cqlsim/simnet"
	"cqlsim/simrt"
	"crypto/tls"
	"fmt"
	"io"
	"strings"
	"time"

	"cqlsim/world"

	"github.com/datastax/cql-proxy/proxy"

	"github.com/datastax/go-cassandra-native-protocol/frame"
	"github.com/datastax/go-cassandra-native-protocol/message"
	"github.com/datastax/go-cassandra-native-protocol/primitive"
)

func init() { Scenarios["C17"] = c17 }

var hostileStrings = []string{"", `"`, `""`, `"""`, `"unterminated`, `'`, `''`, "\x00", "a\x00b", "USE", "USE ", `USE "`, `USE ""`, `use "x`, "SELECT", "SELECT * FROM", `SELECT * FROM "`,
	`SELECT * FROM system."`, `SELECT * FROM "system".`, "SELECT * FROM system.local WHERE", "SELECT count( FROM system.local", "SELECT now( FROM system.peers", "SELECT a AS FROM system.local",
	"INSERT INTO", "UPDATE t SET", "DELETE FROM t WHERE k IN (", "BEGIN BATCH", "BEGIN BATCH INSERT INTO t (k) VALUES (1) APPLY", ";;;;", "/* unterminated", "-- comment", "SELECT * FROM system.local;DROP",
	"\xff\xfe\xfd", strings.Repeat("A", 70000), strings.Repeat(`"`, 999), strings.Repeat("(", 5000), "SELECT " + strings.Repeat("a,", 3000) + "a FROM system.local", `USE "` + strings.Repeat("k", 5000) + `"`}

// C17 — hostile or malformed peers cannot crash or wedge the proxy.
func c17(e *Env) {
	c := e.C
	cfg := swarmWorld(e)
	cfg.WClock = 0
	cfg.Hosts = 2 + c.Choose("hosts", 2)
	cfg.NumConns = 1 + c.Choose("numconns", 2)
	maxes := []primitive.ProtocolVersion{3, 4, 5, primitive.ProtocolVersionDse1, primitive.ProtocolVersionDse2}
	max := maxes[int(e.Seed%uint64(len(maxes)))]
	cfg.ProxyMax = max
	cfg.ProxyVersion = 4
	if max == 3 {
		cfg.ProxyVersion = 3
	}
	cfg.BackendMax = 5
	if max.IsDse() {
		cfg.DSE = true
		cfg.BackendMax = primitive.ProtocolVersionDse2
	}
	cfg.Heartbeat = 5 * time.Second
	cfg.IdleTimeout = 12 * time.Second
	if c.Choose("c17timing", 3) == 2 {
		// another ratio of the three intervals: heartbeats give up early and the idle time-out is
		// long, so several heartbeats of one connection can be unanswered at the same time
		cfg.ConnectTimeout = 2 * time.Second
		cfg.IdleTimeout = 30 * time.Second
	}
	cfg.ReconnBase = 100 * time.Millisecond
	cfg.ReconnMax = 2 * time.Second
	if c.Choose("c17override", 3) == 2 {
		// a non-default configuration: writes at these levels are re-encoded by the proxy, so hostile
		// frames also meet the code that decodes and rebuilds requests
		cfg.TweakProxy = func(pc *proxy.Config) {
			proxy.SimSetWriteConsistencyOverride(pc, []primitive.ConsistencyLevel{primitive.ConsistencyLevelAny, primitive.ConsistencyLevelOne, primitive.ConsistencyLevelTwo, primitive.ConsistencyLevelQuorum, primitive.ConsistencyLevelLocalOne, primitive.ConsistencyLevelSerial}, primitive.ConsistencyLevelLocalQuorum)
		}
		e.Res.Stats["probe.c17.write_consistency_override_configured"]++
	}
	if c.Choose("tls-listener", 8) == 7 {
		c17TLS(e, cfg)
		return
	}
	if c.Choose("client-that-never-reads", 8) == 7 {
		c17Rude(e, cfg)
		return
	}
	w, pi := boot(e, cfg)
	w.ScriptBeatsUnprepared = true
	if pi.BootErr != nil || pi.Listener == nil {
		if !w.Stopped() {
			e.Res.Infra = "proxy did not boot: " + errStr(pi.BootErr)
		}
		return
	}
	healthy := w.Nodes[0] // one node never misbehaves
	healthy.NeverHostile = true
	canary := w.ConnectClient(pi, cfg.ProxyVersion)
	canary.TolerateGarbage = true // judged by this scenario (canary-received-garbage / canary-cannot-decode)
	st := canary.Send("startup", "", message.NewStartup(), nil)
	if !w.RunUntil(func() bool { return len(st.Replies) > 0 }, time.Minute) {
		return
	}
	// a statement in the prepared cache, so that hostile UNPREPARED replies name a cached id
	pr := canary.Send("prepare", "tok0x", &message.Prepare{Query: "SELECT * FROM ks.t_tok0x WHERE k = ?"}, nil)
	if !w.RunUntil(func() bool { return len(pr.Replies) > 0 }, time.Minute) {
		return
	}
	if p, ok := replyMsg(pr).(*message.PreparedResult); ok {
		w.HostileUnpreparedID = p.PreparedQueryId
		// ... and the proxy's own re-PREPAREs of it (sent after such an UNPREPARED) are answered
		// maliciously too, by the nodes that misbehave
		outs := []world.Outcome{world.OK}
		for k := 0; k < 12; k++ {
			if c.Choose("evilreprepare", 2) == 1 {
				outs = append(outs, world.Outcome{Kind: world.OutHostile, Name: "hostile", Hostile: c.Choose("hostilekind", len(world.HostileKinds)) + len(world.HostileKinds)*c.Choose("hostilevariant", 128)})
			} else {
				outs = append(outs, world.OK)
			}
		}
		w.Script["tok0x"] = outs
	}
	canaryOK := 0
	var canaryPending []*world.ClientReq
	sendCanary := func() {
		if !canary.Connected() {
			return
		}
		tok := w.NewToken()
		if c.Choose("canarysys", 4) == 3 {
			canaryPending = append(canaryPending, canary.Send("system", "", world.QueryMsg("SELECT key, cluster_name FROM system.local", primitive.ConsistencyLevelOne), nil))
			return
		}
		canaryPending = append(canaryPending, canary.Send("query", tok, world.QueryMsg("SELECT * FROM ks.t WHERE k = '"+tok+"'", primitive.ConsistencyLevelOne), nil))
	}
	checkCanary := func(final bool) bool {
		if len(canary.Unsolicited) > 0 {
			return false // raised online
		}
		if len(canary.UndecodableFromProxy) > 0 {
			w.Violate("c17-canary", "canary-received-garbage", "the well-behaved client received bytes it cannot decode: "+canary.UndecodableFromProxy[0])
			return false
		}
		if !canary.Connected() {
			w.Violate("c17-canary", "canary-connection-closed", "the proxy closed the well-behaved client's connection")
			return false
		}
		var rest []*world.ClientReq
		for _, r := range canaryPending {
			if len(r.Replies) == 0 {
				rest = append(rest, r)
				continue
			}
			m := replyMsg(r)
			if r.Kind == "system" {
				rr, ok := m.(*message.RowsResult)
				if !ok || len(rr.Data) != 1 || string(rr.Data[0][0]) != "local" {
					w.Violate("c17-canary", "canary-wrong-answer", fmt.Sprintf("the well-behaved client's system query was answered with %v", m))
					return false
				}
				canaryOK++
				continue
			}
			rr, ok := m.(*message.RowsResult)
			if !ok || len(rr.Data) != 1 || string(rr.Data[0][0]) != r.Token {
				// an idempotent read must succeed while a healthy host exists; its only legitimate failures are none
				w.Violate("c17-canary", "canary-wrong-answer", fmt.Sprintf("the well-behaved client's idempotent read %s was answered with %v although host %s is healthy", r.Token, m, healthy))
				return false
			}
			canaryOK++
		}
		canaryPending = rest
		if final && len(rest) > 0 {
			blocked, _ := blockedReport(e.S)
			w.Violate("c17-canary", "canary-not-answered", fmt.Sprintf("%d requests of the well-behaved client were never answered; busiest: %s; blocked: [%s]", len(rest), busiest(e.S), blocked))
			return false
		}
		return true
	}
	// hostile backends: requests of hostile clients (and only those) get malformed replies on the non-healthy nodes
	evilTokens := map[string]bool{}
	w.OnAttempt = func(a *world.Attempt) {}
	nHostileClients := 1 + c.Choose("hclients", 3)
	var hostiles []*world.Client
	for i := 0; i < nHostileClients; i++ {
		versions := []primitive.ProtocolVersion{3, 4}
		if max >= 5 && !max.IsDse() {
			versions = append(versions, 5)
		}
		if max.IsDse() {
			versions = append(versions, primitive.ProtocolVersionDse1)
			if max == primitive.ProtocolVersionDse2 {
				versions = append(versions, primitive.ProtocolVersionDse2)
			}
		}
		var vs []primitive.ProtocolVersion
		for _, v := range versions {
			if v <= max {
				vs = append(vs, v)
			}
		}
		h := w.ConnectClient(pi, vs[c.Choose("hver", len(vs))])
		h.Hostile = true
		h.Send("startup", "", message.NewStartup(), nil)
		hostiles = append(hostiles, h)
	}
	w.RunUntil(func() bool { return false }, 100*time.Millisecond)
	nFrames := 10 + c.Choose("nframes", 50)
	type c17sent struct {
		raw []byte
		tok string
		msg message.Message
	}
	lastSent := map[*world.Client]*c17sent{}
	stream := int16(100)
	mutated := 0
	for i := 0; i < nFrames && !w.Stopped(); i++ {
		if c.Choose("canarynow", 3) == 0 {
			sendCanary()
		}
		var live []*world.Client
		for _, h := range hostiles {
			if h.Connected() {
				live = append(live, h)
			}
		}
		if len(live) == 0 {
			// a hostile client whose connection was closed simply reconnects
			h := w.ConnectClient(pi, cfg.ProxyVersion)
			h.Hostile = true
			h.Send("startup", "", message.NewStartup(), nil)
			hostiles = append(hostiles, h)
			live = append(live, h)
		}
		h := live[c.Choose("hwho", len(live))]
		stream++
		if stream > 30000 {
			stream = 100
		}
		if prev := lastSent[h]; prev != nil && c.Choose("resend", 5) == 4 {
			// the same frame once more (a driver that retries, a client stuck in a loop): what the
			// first copy left behind in the proxy must not trip the second
			raw := append([]byte(nil), prev.raw...)
			if len(raw) > 3 {
				raw[2], raw[3] = byte(stream>>8), byte(stream)
			}
			h.SendRaw(stream, "hostile", prev.tok, raw, prev.msg)
			e.Res.Stats["probe.c17.frame_sent_again"]++
			w.RunUntil(func() bool { return false }, time.Duration(c.Choose("pause", 300))*time.Millisecond)
			continue
		}
		tok := w.NewToken()
		hs := func() string { return hostileStrings[c.Choose("hstr", len(hostileStrings))] }
		var msg message.Message
		kind := c.Choose("hkind", 12)
		switch kind {
		case 0:
			msg = world.QueryMsg(hs(), primitive.ConsistencyLevelOne)
			if c.Choose("odddml", 2) == 1 {
				// Malformed data statements that the backend answers with an error *after* the proxy
				// forwarded them: the proxy then parses the text to decide whether it may retry.
				k := "'" + tok + "'"
				frags := []string{";", "(", ")", ",", "=", "?", ":", "[", "]", "{", "}", "+", "-", ".", "*", "''", "'", "\"", "$$", "/*", "--", "0x", "1e", "IF", "USING", "AND", "SET", "WHERE", "VALUES", "\x00", "\u00e9"}
				fr := func() string { return frags[c.Choose("frag", len(frags))] }
				shapes := []string{
					"INSERT INTO ks.t (k, v) VALUES (" + k + ", " + fr() + "",
					"INSERT INTO ks.t (k, v) VALUES (" + k + ", " + fr() + ")",
					"INSERT INTO ks.t (k" + fr() + " v) VALUES (" + k + ", 1)",
					"UPDATE ks.t SET v = " + fr() + " WHERE k = " + k,
					"UPDATE ks.t SET v = v" + fr(),
					"UPDATE ks.t SET v " + fr() + " 1 WHERE k = " + k,
					"UPDATE ks.t USING TTL " + fr() + " SET v = 1 WHERE k = " + k,
					"DELETE FROM ks.t WHERE k = " + fr(),
					"DELETE v" + fr() + " FROM ks.t WHERE k = " + k,
					"DELETE FROM ks.t WHERE k = " + k + " IF " + fr(),
					"BEGIN BATCH UPDATE ks.t SET v = " + fr() + " WHERE k = " + k + "; APPLY BATCH",
					"BEGIN BATCH " + fr() + " APPLY BATCH -- " + tok,
				}
				msg = world.QueryMsg(shapes[c.Choose("oddshape", len(shapes))], primitive.ConsistencyLevelOne)
				var outs []world.Outcome
				for j := 0; j < len(w.Nodes)+1; j++ {
					o := world.DrawOutcome(c, h.Version).Outcome
					if o.Kind != world.OutError {
						o = world.ErrOutcome("overloaded", &message.Overloaded{ErrorMessage: "overloaded"})
					}
					outs = append(outs, o)
				}
				w.Script[tok] = outs
			}
		case 1:
			p := &message.Prepare{Query: hs()}
			if h.Version.SupportsQueryFlag(primitive.QueryFlagWithKeyspace) {
				p.Keyspace = hs()
				if len(p.Keyspace) > 60000 {
					p.Keyspace = p.Keyspace[:60000]
				}
			}
			msg = p
		case 2:
			cqlv := hs()
			msg = &message.Startup{Options: map[string]string{"CQL_VERSION": cqlv[:min(len(cqlv), 100)], "COMPRESSION": []string{"", "\x00", "LZ4\x00", strings.Repeat("z", 300)}[c.Choose("hcomp", 4)]}}
		case 3:
			b := &message.Batch{Type: primitive.BatchTypeLogged, Consistency: primitive.ConsistencyLevelOne}
			for k := 0; k < 1+c.Choose("hbn", 3); k++ {
				b.Children = append(b.Children, &message.BatchChild{Query: hs()})
			}
			msg = b
		case 4:
			msg = world.QueryMsg("USE "+hs(), primitive.ConsistencyLevelOne)
		case 5:
			msg = world.QueryMsg("SELECT "+hs()+" FROM system.local", primitive.ConsistencyLevelOne)
		case 6:
			msg = &message.Prepare{Query: "SELECT * FROM system." + hs()}
		case 7:
			// prepared ids are bytes of the client's choosing: odd lengths (a real id has 16), as
			// EXECUTE or as BATCH children, answered by the backend with an error or a lost
			// connection instead of the usual UNPREPARED
			idb := []byte(hs() + "x")
			if c.Choose("shortid", 2) == 1 {
				idb = idb[:min(len(idb), 1+c.Choose("idlen", 20))]
			}
			// ... or the genuine id of a statement this client prepared earlier, however odd its text
			// was (the backend accepted it): what the proxy remembers of such a statement is used
			// when its EXECUTE fails
			var real [][]byte
			for _, r := range h.Reqs {
				for _, rep := range r.Replies {
					if rep.Frame != nil {
						if pr, ok := rep.Frame.Body.Message.(*message.PreparedResult); ok && len(pr.PreparedQueryId) > 0 {
							real = append(real, pr.PreparedQueryId)
						}
					}
				}
			}
			if len(real) > 0 && c.Choose("realid", 2) == 1 {
				idb = real[c.Choose("realidwhich", len(real))]
				e.Res.Stats["probe.c17.execute_of_oddly_prepared_statement"]++
			}
			idb = idb[:min(len(idb), 300)]
			if c.Choose("idinbatch", 3) == 2 {
				b := &message.Batch{Type: primitive.BatchTypeLogged, Consistency: primitive.ConsistencyLevelOne}
				b.Children = append(b.Children, &message.BatchChild{Id: idb, Values: []*primitive.Value{primitive.NewValue([]byte(tok))}})
				if c.Choose("idinbatch2", 2) == 1 {
					b.Children = append(b.Children, &message.BatchChild{Query: "INSERT INTO ks.t (k, v) VALUES ('" + tok + "', 1)"})
				}
				msg = b
			} else {
				msg = world.ExecMsg(idb, []byte("m"), tok, primitive.ConsistencyLevelOne)
			}
			if c.Choose("iderr", 2) == 1 {
				var outs []world.Outcome
				for k := 0; k < len(w.Nodes)+1; k++ {
					o := world.DrawOutcome(c, h.Version).Outcome
					if o.Kind != world.OutError {
						// error replies only: an outcome that kills the connection would also hit the
						// designated healthy node, whose availability the canary oracle relies on
						o = world.ErrOutcome("overloaded", &message.Overloaded{ErrorMessage: "overloaded"})
					}
					outs = append(outs, o)
				}
				w.Script[tok] = outs
			}
		default:
			// a valid forwarded request (the mutation below does the damage), possibly answered maliciously
			g := world.GenRequest(c, h.Version, tok, nil, nil, 256)
			msg = g.Msg
			if c.Choose("evilreply", 2) == 1 {
				evilTokens[tok] = true
				var outs []world.Outcome
				for k := 0; k < len(w.Nodes)+1; k++ {
					outs = append(outs, world.Outcome{Kind: world.OutHostile, Name: "hostile", Hostile: c.Choose("hostilekind", len(world.HostileKinds)) + len(world.HostileKinds)*c.Choose("hostilevariant", 128)})
				}
				w.Script[tok] = outs
			}
		}
		fr := frame.NewFrame(h.Version, stream, msg)
		raw := safeEncode(fr)
		if raw == nil {
			continue
		}
		// byte-level mutation
		switch c.Choose("mut", 10) {
		case 9: // a v3 frame with the CUSTOM_PAYLOAD flag (defined from v4 on) and a payload in front of a write
			fr4 := frame.NewFrame(primitive.ProtocolVersion4, stream, world.QueryMsg("INSERT INTO ks.t (k, v) VALUES ('"+tok+"', 1)", []primitive.ConsistencyLevel{primitive.ConsistencyLevelAny, primitive.ConsistencyLevelOne, primitive.ConsistencyLevelLocalQuorum}[c.Choose("v3payload-cl", 3)]))
			fr4.SetCustomPayload(map[string][]byte{"k": []byte("v")})
			if b := safeEncode(fr4); b != nil {
				raw = b
				raw[0] = byte(primitive.ProtocolVersion3)
				e.Res.Stats["probe.c17.v3_frame_with_custom_payload_flag"]++
			}
		case 8: // a frame in the response direction whose body announces hostile counts
			// (a client has no business sending responses; what the proxy does to decode them anyway
			// must survive lengths that are negative or absurd)
			hostile := []uint32{0xffffffff, 0x80000000, 0x00100000, 0xfffffffe, 0xffff0000}[c.Choose("respcount", 5)] // (negative, or large without asking for gigabytes: counts near 2^31 make the decoder allocate until the process is killed - a resource question like the declared frame lengths C17 leaves out)
			var body []byte
			i32 := func(v uint32) { body = append(body, byte(v>>24), byte(v>>16), byte(v>>8), byte(v)) }
			op := byte(primitive.OpCodeResult)
			switch c.Choose("respshape", 5) {
			case 0: // RESULT Rows: flags 0, column count hostile
				i32(2)
				i32(0)
				i32(hostile)
			case 1: // RESULT Rows: one column (global table spec), rows count hostile
				i32(2)
				i32(1)
				i32(1)
				body = append(body, 0, 2, 'k', 's', 0, 1, 't', 0, 1, 'c', 0, 13)
				i32(hostile)
			case 2: // RESULT Prepared with a hostile column count
				i32(4)
				body = append(body, 0, 2, 'i', 'd')
				i32(0)
				i32(hostile)
				i32(0)
			case 3: // ERROR read failure with a hostile reason map (v5 / DSEv2 layouts read a map)
				op = byte(primitive.OpCodeError)
				i32(0x1300)
				body = append(body, 0, 1, 'x', 0, 1)
				i32(1)
				i32(1)
				i32(hostile)
			case 4: // SUPPORTED with a hostile multimap length (short)
				op = byte(primitive.OpCodeSupported)
				body = append(body, byte(hostile>>8), byte(hostile))
			}
			raw = append([]byte{byte(h.Version) | 0x80, 0, byte(stream >> 8), byte(stream), op, 0, 0, 0, byte(len(body))}, body...)
			e.Res.Stats["probe.c17.response_frame_with_hostile_counts_from_client"]++
		case 0: // bit flips
			for k := 0; k < 1+c.Choose("nflips", 4); k++ {
				p := c.Choose("flipat", len(raw))
				raw[p] ^= 1 << c.Choose("flipbit", 8)
			}
		case 1: // truncation (the rest never comes; more frames follow and are swallowed as body)
			raw = raw[:c.Choose("truncat", len(raw))]
		case 2: // declared length far larger than the body
			n := []int{1 << 16, 1 << 20, 16 << 20, 16<<20 - 1}[c.Choose("biglen", 4)]
			raw[5], raw[6], raw[7], raw[8] = byte(n>>24), byte(n>>16), byte(n>>8), byte(n)
		case 3: // negative / absurd length
			raw[5], raw[6], raw[7], raw[8] = 0xff, 0xff, 0xff, byte(c.Choose("neg", 256))
		case 4: // wrong opcode
			raw[4] = byte(c.Choose("opbyte", 256))
		case 5: // direction bit / version byte
			raw[0] = byte(c.Choose("vbyte", 256))
		case 6: // a 32-bit length field inside the body replaced by a hostile value
			if len(raw) > 13 {
				vals := []int32{-1, -2, -3, -7, -16, -33, -53, -64, -1 << 31, 1<<31 - 1, 1 << 24, int32(len(raw))}
				v := vals[c.Choose("lenval", len(vals))]
				// (biased towards the end of the body, where values and their lengths sit)
				p := 9 + c.Choose("lenat", len(raw)-12)
				if c.Choose("lenatend", 2) == 1 {
					p = len(raw) - 4 - c.Choose("lenfromend", min(len(raw)-12, 24))
				}
				raw[p], raw[p+1], raw[p+2], raw[p+3] = byte(v>>24), byte(v>>16), byte(v>>8), byte(v)
			}
		}
		mutated++
		h.SendRaw(stream, "hostile", tok, raw, msg)
		lastSent[h] = &c17sent{raw: append([]byte(nil), raw...), tok: tok, msg: msg}
		// let things move; every few frames the clock moves too (heartbeats, reconnects)
		w.RunUntil(func() bool { return false }, time.Duration(c.Choose("pause", 300))*time.Millisecond)
		if c.Choose("evilhb", 10) == 9 {
			n := w.Nodes[1+c.Choose("evilnode", len(w.Nodes)-1)]
			n.EvilHeartbeat = 1 + c.Choose("evilhbn", 3)
		}
		if c.Choose("oddlocal", 14) == 13 {
			// a node (never the healthy one) answers the proxy's next system.local queries with a null
			// where its address, data centre or host id belongs, and the control connection is lost so
			// that the fail-over gets to ask it
			n := w.Nodes[1+c.Choose("oddlocalnode", len(w.Nodes)-1)]
			n.OddLocalRows, n.OddLocalKind = 1+c.Choose("oddlocaln", 3), c.Choose("oddlocalkind", 4)
			for _, bc := range append([]*world.BackendConn(nil), w.ControlConns...) {
				bc.Reset("fault: control connection lost (hostile system.local ahead)")
			}
			e.Res.Stats["probe.c17.system_local_with_null_column_armed"]++
		}
		if c.Choose("evilevent", 12) == 11 {
			for _, bc := range w.ControlConns {
				if bc.Node != healthy && !bc.Closed {
					bc.Link.PeerWrite([]byte{byte(bc.Version) | 0x80, 0, 0xff, 0xff, 0x0C, 0, 0, 0, 5, 0, 9, 'x', 'y', 'z'})
					w.Stat("fault.hostile-backend.garbage-control-event")
				}
			}
		}
		if !checkCanary(false) {
			return
		}
	}
	// some runs: one of the other nodes goes quiet - it keeps its connections open and answers
	// nothing, heartbeats included, for several heartbeat rounds - and then answers everything it
	// has read in one burst, or stays quiet until the proxy gives its connections up as idle
	if c.Choose("quiet-node?", 3) == 2 {
		q := w.Nodes[1+c.Choose("quiet-node", len(w.Nodes)-1)]
		q.Stalled = true
		w.Logf("node %s: goes quiet", q)
		e.Res.Stats["probe.c17.backend_quiet_for_several_heartbeat_rounds"]++
		for i := 0; i < 3; i++ {
			sendCanary()
		}
		quietFor := []time.Duration{8 * time.Second, 14 * time.Second, 21 * time.Second, 45 * time.Second}[c.Choose("quiet-for", 4)]
		w.RunUntil(func() bool { return false }, quietFor)
		if w.Stopped() {
			return
		}
		q.Unstall()
		w.RunUntil(func() bool { return false }, 5*time.Second)
		if w.Stopped() || !checkCanary(false) {
			return
		}
	}
	// the healthy node must keep working: make sure hostile scripts never hit it
	for i := 0; i < 4; i++ {
		sendCanary()
	}
	w.RunUntil(func() bool {
		for _, r := range canaryPending {
			if len(r.Replies) == 0 {
				return false
			}
		}
		return true
	}, 3*time.Minute)
	if w.Stopped() {
		return
	}
	if !checkCanary(true) {
		return
	}
	e.Res.Stats["oracle.c17.canary_answers_checked"] += canaryOK
	e.Res.Stats["probe.c17.mutated_frames"] += mutated
	e.Res.Nontrivial = mutated > 0
	e.Res.Sample = fmt.Sprintf("max=%s hostile clients=%d mutated frames=%d hostile-reply tokens=%d canary answers checked=%d", max, len(hostiles), mutated, len(evilTokens), canaryOK)
	e.Res.Shape = fmt.Sprintf("max%d h%d", max, cfg.Hosts)
}

// safeEncode encodes with the reference codec; messages it refuses to encode are skipped.
func safeEncode(fr *frame.Frame) (raw []byte) {
	defer func() {
		if r := recover(); r != nil {
			raw = nil
		}
	}()
	return world.EncodeFrame("", fr)
}

// c17TLS: the client-facing listener is a TLS listener (--proxy-cert-file / --proxy-key-file).
// Clients that stall or garble the TLS handshake must not keep a well-behaved TLS client, which
// connects after them, from being served.
func c17TLS(e *Env, cfg world.Config) {
	c := e.C
	key := c19key(7)
	now := time.Now()
	_, der := mintCert(certSpec{cn: "proxy.test", dns: []string{"proxy.test"}, notBefore: now.Add(-time.Hour), notAfter: now.Add(24 * time.Hour)}, key, nil, nil, 4242)
	cfg.ClientTLS = &tls.Config{Certificates: []tls.Certificate{{Certificate: [][]byte{der}, PrivateKey: key}}, MinVersion: tls.VersionTLS12}
	cfg.FragProb = 0 // TLS records carry random bytes: fragment positions would differ between executions
	w, pi := boot(e, cfg)
	if pi.BootErr != nil || pi.Listener == nil {
		if !w.Stopped() {
			e.Res.Infra = "proxy did not boot: " + errStr(pi.BootErr)
		}
		return
	}
	w.Quiesce()
	e.Res.Stats["probe.c17.tls_listener"]++
	// hostile peers at the TLS layer
	nh := 1 + c.Choose("tlshostiles", 4)
	for i := 0; i < nh; i++ {
		pe := &simnet.PeerEnd{}
		l, err := w.N.Connect(pi.Listener, pe, nil, fmt.Sprintf("tls-hostile%d", i))
		if err != nil {
			return
		}
		pe.L = l
		switch c.Choose("tlshostilekind", 6) {
		case 0: // says nothing at all
		case 1: // the first bytes of a record, then silence
			l.PeerWrite([]byte{0x16, 0x03, 0x01})
		case 2: // a record header announcing more than ever comes
			l.PeerWrite([]byte{0x16, 0x03, 0x01, 0x40, 0x00, 0x01, 0x00, 0x3f, 0xfc})
		case 3: // not TLS
			l.PeerWrite([]byte("GET / HTTP/1.1\r\nHost: x\r\n\r\n"))
		case 4: // a CQL frame in the clear
			l.PeerWrite(world.EncodeFrame("", frame.NewFrame(4, 1, message.NewStartup())))
		case 5: // an alert, then half-close
			l.PeerWrite([]byte{0x15, 0x03, 0x03, 0x00, 0x02, 0x02, 0x28})
			l.PeerClose()
		}
		w.RunUntil(func() bool { return false }, time.Duration(c.Choose("tlsgap", 300))*time.Millisecond)
	}
	// the well-behaved TLS client arrives afterwards
	pe := &simnet.PeerEnd{}
	l, err := w.N.Connect(pi.Listener, pe, nil, "tls-canary")
	if err != nil {
		return
	}
	pe.L = l
	stage, tok, got := "", w.NewToken(), ""
	done := false
	simrt.Go("tls-canary", func() {
		defer func() { done = true }()
		tc := tls.Client(pe, &tls.Config{InsecureSkipVerify: true, ServerName: "proxy.test"})
		stage = "handshake"
		if err := tc.Handshake(); err != nil {
			got = "handshake failed: " + err.Error()
			return
		}
		exchange := func(fr *frame.Frame) (*frame.Frame, error) {
			if _, err := tc.Write(world.EncodeFrame("", fr)); err != nil {
				return nil, err
			}
			hdr := make([]byte, 9)
			if _, err := io.ReadFull(tc, hdr); err != nil {
				return nil, err
			}
			body := make([]byte, int(hdr[5])<<24|int(hdr[6])<<16|int(hdr[7])<<8|int(hdr[8]))
			if _, err := io.ReadFull(tc, body); err != nil {
				return nil, err
			}
			return world.DecodeFrame("", append(hdr, body...))
		}
		stage = "startup"
		r, err := exchange(frame.NewFrame(cfg.ProxyVersion, 1, message.NewStartup()))
		if err != nil {
			got = "startup: " + err.Error()
			return
		}
		if _, ok := r.Body.Message.(*message.Ready); !ok {
			got = fmt.Sprintf("startup answered with %v", r.Body.Message)
			return
		}
		stage = "query"
		r, err = exchange(frame.NewFrame(cfg.ProxyVersion, 2, world.QueryMsg("SELECT * FROM ks.t WHERE k = '"+tok+"'", primitive.ConsistencyLevelOne)))
		if err != nil {
			got = "query: " + err.Error()
			return
		}
		rr, ok := r.Body.Message.(*message.RowsResult)
		if !ok || len(rr.Data) != 1 || string(rr.Data[0][0]) != tok {
			got = fmt.Sprintf("query answered with %v", r.Body.Message)
			return
		}
		stage = "served"
	})
	w.RunUntil(func() bool { return done }, 2*time.Minute)
	if w.Stopped() {
		return
	}
	if stage != "served" {
		blocked, _ := blockedReport(e.S)
		w.Violate("c17-canary", "tls-client-not-served", fmt.Sprintf("a well-behaved TLS client that connected after %d stalling or garbling peers was not served: stuck at %q (%s); blocked: [%s]", nh, stage, got, blocked))
		return
	}
	e.Res.Stats["oracle.c17.tls_canary_served"]++
	e.Res.Nontrivial = true
	e.Res.Sample = fmt.Sprintf("TLS listener: %d hostile peers at the TLS layer, then a well-behaved TLS client served", nh)
	e.Res.Shape = fmt.Sprintf("tls h%d", nh)
}

// c17Rude: a client pipelines requests, never reads a single answer and then vanishes. While it is
// connected the proxy may be stuck handing it answers (what a peer does not read cannot be
// written); once it is gone nothing of that may remain: requests of other clients that were in
// flight on the same backend connections are answered, and so is everything sent afterwards.
// Tuning knob: a short write queue per connection, so that a handful of unread answers fill it.
func c17Rude(e *Env, cfg world.Config) {
	c := e.C
	cfg.MaxMessages = 1 + c.Choose("rude-maxmessages", 4)
	cfg.Hosts = 1 + c.Choose("rude-hosts", 2)
	cfg.NumConns = 1 + c.Choose("rude-numconns", 2)
	w, pi := boot(e, cfg)
	if pi.BootErr != nil || pi.Listener == nil {
		if !w.Stopped() {
			e.Res.Infra = "proxy did not boot: " + errStr(pi.BootErr)
		}
		return
	}
	e.Res.Shape = fmt.Sprintf("never-reads h%d c%d q%d", cfg.Hosts, cfg.NumConns, cfg.MaxMessages)
	e.Res.Stats["probe.c17.shape.client_that_never_reads"]++
	start := func() *world.Client {
		cl := w.ConnectClient(pi, cfg.ProxyVersion)
		st := cl.Send("startup", "", message.NewStartup(), nil)
		w.RunUntil(func() bool { return len(st.Replies) > 0 }, time.Minute)
		return cl
	}
	canary, rude := start(), start()
	if w.Stopped() {
		return
	}
	query := func(cl *world.Client) *world.ClientReq {
		tok := w.NewToken()
		return cl.Send("query", tok, world.QueryMsg("SELECT * FROM ks.t WHERE k = '"+tok+"'", primitive.ConsistencyLevelOne), nil)
	}
	// requests of the rude client whose answers the nodes hold back for now: one or more per backend connection
	savePeer := w.Cfg.WPeer
	w.Cfg.WPeer = 0
	for i := cfg.Hosts*cfg.NumConns + c.Choose("rude-held", 4); i > 0; i-- {
		query(rude)
	}
	w.Quiesce()
	// it stops reading and floods requests that the proxy answers itself, until the proxy takes no more
	rude.StopReading(256 + c.Choose("rude-sndbuf", 4096))
	for i := 20 + c.Choose("rude-flood", 100); i > 0; i-- {
		rude.Send("system", "", world.QueryMsg("SELECT * FROM system.local", primitive.ConsistencyLevelOne), nil)
	}
	w.Quiesce()
	if w.N.Stats.BlockedWrites > 0 {
		e.Res.Stats["probe.c17.proxy_write_blocked_by_a_client_that_does_not_read"]++
	}
	// a request of the well-behaved client joins the ones in flight, and the nodes answer everything
	inflight := query(canary)
	w.Quiesce()
	w.Cfg.WPeer = savePeer
	w.RunUntil(func() bool { return w.HeldCount() == 0 }, time.Second)
	w.Quiesce()
	if w.Stopped() {
		return
	}
	if len(inflight.Replies) == 0 {
		e.Res.Stats["probe.c17.other_clients_request_stuck_behind_the_rude_client"]++
	}
	// the rude client goes away
	if c.Choose("rude-leaves-how", 2) == 0 {
		rude.Abort()
	} else {
		rude.Link.SetNoRead(false, 0)
		rude.Disconnect()
	}
	const bound = 30 * time.Second
	if !w.RunUntil(func() bool { return len(inflight.Replies) > 0 }, bound) {
		if !w.Stopped() {
			w.Violate("c17-canary", "request-wedged-after-a-non-reading-client-left", fmt.Sprintf("%s of the well-behaved client, in flight when the client that never read its answers went away, is unanswered %v later; blocked: %v", inflight, bound, blockedOf(e)))
		}
		return
	}
	for i := 2*cfg.Hosts*cfg.NumConns + 1; i > 0; i-- {
		r := query(canary)
		if !w.RunUntil(func() bool { return len(r.Replies) > 0 }, bound) {
			if !w.Stopped() {
				w.Violate("c17-canary", "request-wedged-after-a-non-reading-client-left", fmt.Sprintf("%s, sent after the client that never read its answers went away, is unanswered %v later; blocked: %v", r, bound, blockedOf(e)))
			}
			return
		}
		if rr, ok := replyMsg(r).(*message.RowsResult); !ok || len(rr.Data) != 1 || string(rr.Data[0][0]) != r.Token {
			w.Violate("c17-canary", "canary-wrong-answer", fmt.Sprintf("%s was answered with %v", r, replyMsg(r)))
			return
		}
	}
	late := start()
	if r := query(late); !w.RunUntil(func() bool { return len(r.Replies) > 0 }, bound) && !w.Stopped() {
		w.Violate("c17-canary", "request-wedged-after-a-non-reading-client-left", fmt.Sprintf("%s of a client that connected afterwards is unanswered %v later; blocked: %v", r, bound, blockedOf(e)))
		return
	}
	e.Res.Nontrivial = true
	e.Res.Stats["oracle.c17.recovered_after_non_reading_client"]++
	e.Res.Sample = fmt.Sprintf("client that never reads: %d blocked writes; everything answered after it left", w.N.Stats.BlockedWrites)
}

func blockedOf(e *Env) string {
	b, _ := blockedReport(e.S)
	return "[" + b + "]"
}
