package props

import (
	"bytes"
	"fmt"
	"time"

	"cqlsim/world"

	"github.com/datastax/cql-proxy/proxy"
	"github.com/datastax/go-cassandra-native-protocol/frame"
	"github.com/datastax/go-cassandra-native-protocol/message"
	"github.com/datastax/go-cassandra-native-protocol/primitive"
)

func init() { Scenarios["C12"] = c12 }

// canon decodes a frame with the reference codec and re-encodes it uncompressed with stream 0:
// two frames with the same canon have the same meaning field by field.
func canon(compression string, raw []byte, setCL *primitive.ConsistencyLevel) ([]byte, error) {
	fr, err := world.DecodeFrame(compression, raw)
	if err != nil {
		return nil, err
	}
	if setCL != nil {
		switch m := fr.Body.Message.(type) {
		case *message.Query:
			m.Options.Consistency = *setCL
		case *message.Execute:
			m.Options.Consistency = *setCL
		case *message.Batch:
			m.Consistency = *setCL
		}
	}
	fr.Header.StreamId = 0
	fr.SetCompress(false)
	return world.TryEncodeFrame("", fr)
}

// C12 — the write-consistency override rewrites exactly the consistency of matching writes.
func c12(e *Env) {
	c := e.C
	// configuration: any subset of levels as the unsupported list (sometimes none), any override
	var unsupported []primitive.ConsistencyLevel
	mask := c.Choose("unsupmask", 1<<11)
	if c.Choose("nolist", 5) == 4 {
		mask = 0
	}
	if c.Choose("dense", 3) == 2 {
		mask |= c.Choose("unsupmask2", 1<<11)
	}
	inList := map[primitive.ConsistencyLevel]bool{}
	for i, l := range world.AllConsistencies {
		if mask&(1<<i) != 0 {
			unsupported = append(unsupported, l)
			inList[l] = true
		}
	}
	// the list is a set: the order in which the levels are configured means nothing
	for i := len(unsupported) - 1; i > 0; i-- {
		j := c.Choose("unsuporder", i+1)
		unsupported[i], unsupported[j] = unsupported[j], unsupported[i]
	}
	override := world.AllConsistencies[c.Choose("override", len(world.AllConsistencies))]
	pw := protoBoot(e, func(cfg *world.Config) {
		cfg.TweakProxy = func(pc *proxy.Config) { proxy.SimSetWriteConsistencyOverride(pc, unsupported, override) }
	})
	f := pw.f
	if !f.bootOK() || !f.connectClients() {
		return
	}
	w := f.w
	w.OnReply = f.onReply
	// phase 1: SELECT and non-SELECT statements prepared through the proxy
	type prep struct {
		req *world.ClientReq
		sel bool
	}
	var preps []prep
	type stmt struct {
		cl   *world.Client
		tok  string
		text string
		sel  bool
	}
	var stmts []stmt
	for _, cl := range f.clients {
		for _, sel := range []bool{true, false} {
			tok := w.NewToken()
			text := "UPDATE ks.t_" + tok + " SET v = ? WHERE k = ?"
			if sel {
				text = "SELECT * FROM ks.t_" + tok + " WHERE k = ?"
			}
			stmts = append(stmts, stmt{cl, tok, text, sel})
		}
	}
	// phase 0 (some runs): the order of a driver recovering after a proxy restart - EXECUTE of an
	// id this proxy has not seen prepared yet (the cluster knows it), then PREPARE, then EXECUTE
	// again on the same connection. The early EXECUTEs themselves are not judged: the proxy
	// cannot know whether their statement is a SELECT.
	if c.Choose("recovery-order", 3) == 2 {
		for _, st := range stmts {
			if c.Choose("early-exec", 2) == 0 {
				continue
			}
			id := world.PreparedID(st.text)
			if c.Choose("cluster-knows", 3) != 0 {
				w.ForeignPrepared(id, st.text)
			}
			tok := w.NewToken()
			var rm []byte
			if st.cl.Version.SupportsResultMetadataId() {
				rm = id
			}
			st.cl.Send("execute", tok, world.ExecMsg(id, rm, tok, world.AllConsistencies[c.Choose("earlycl", len(world.AllConsistencies))]), nil)
			e.Res.Stats["probe.c12.execute_before_prepare"]++
		}
		if !w.RunUntil(f.allAnswered, 10*time.Minute) {
			return
		}
	}
	// some statements fail to prepare the first time (a node whose schema lags answers INVALID) and
	// are prepared again, as a driver does
	if c.Choose("prepare-fails-first", 3) == 2 {
		for _, st := range stmts {
			if c.Choose("which-fails-first", 2) == 1 {
				w.Script[st.tok] = []world.Outcome{world.ErrOutcome("invalid", &message.Invalid{ErrorMessage: "unconfigured table t_" + st.tok})}
				st.cl.Send("prepare", st.tok, &message.Prepare{Query: st.text}, nil)
				e.Res.Stats["probe.c12.prepare_failed_first"]++
			}
		}
		if !w.RunUntil(f.allAnswered, 10*time.Minute) {
			return
		}
	}
	for _, st := range stmts {
		preps = append(preps, prep{st.cl.Send("prepare", st.tok, &message.Prepare{Query: st.text}, nil), st.sel})
	}
	if !w.RunUntil(f.allAnswered, 10*time.Minute) {
		return
	}
	// some clients then move to another keyspace and prepare the same texts again: a node derives
	// the id from the text and the keyspace, so these are further ids for the same statements
	if c.Choose("same-text-second-keyspace", 3) == 2 {
		for _, cl := range f.clients {
			if c.Choose("who-moves", 2) == 0 {
				continue
			}
			u := cl.Send("use", "", world.QueryMsg("USE ks2", primitive.ConsistencyLevelOne), nil)
			if !w.RunUntil(func() bool { return len(u.Replies) > 0 }, 10*time.Minute) {
				return
			}
			if _, ok := replyMsg(u).(*message.SetKeyspaceResult); !ok {
				continue
			}
			for _, st := range stmts {
				if st.cl == cl {
					preps = append(preps, prep{cl.Send("prepare", st.tok, &message.Prepare{Query: st.text}, nil), st.sel})
					e.Res.Stats["probe.c12.same_text_prepared_in_second_keyspace"]++
				}
			}
		}
		if !w.RunUntil(f.allAnswered, 10*time.Minute) {
			return
		}
	}
	for _, p := range preps {
		pr, ok := replyMsg(p.req).(*message.PreparedResult)
		if !ok {
			continue
		}
		pw.execIDs = append(pw.execIDs, pr.PreparedQueryId)
		pw.execSelect = append(pw.execSelect, p.sel)
		for _, n := range w.Nodes { // every node knows it: re-preparation is C08's business
			n.Prepared[fmt.Sprintf("%x", pr.PreparedQueryId)] = "x"
		}
	}
	// Some of the clients that prepared the statements leave before anything is executed (drivers
	// prepare on one connection and execute on any; a connection that closes takes nothing with it)
	if len(f.clients) > 1 && c.Choose("preparers-leave", 3) == 2 {
		keep := c.Choose("keepwho", len(f.clients))
		for i, cl := range f.clients {
			if i != keep && c.Choose("leaves", 2) == 1 {
				cl.Disconnect()
				e.Res.Stats["probe.c12.preparing_client_left"]++
			}
		}
		w.RunUntil(func() bool { return false }, time.Second)
	}
	// some runs: the application has been running for hours since it prepared its statements
	// (drivers prepare once and execute for ever), and some client prepares one more statement just
	// before the executions that are judged: what the proxy knows about a prepared statement does
	// not wear off
	if c.Choose("hours-since-prepare", 16) == 15 {
		d := []time.Duration{90 * time.Minute, 5 * time.Hour}[c.Choose("hours", 2)]
		w.RunUntil(func() bool { return false }, d)
		if w.Stopped() {
			return
		}
		for _, cl := range f.clients {
			if cl.Connected() {
				tok := w.NewToken()
				r := cl.Send("prepare", tok, &message.Prepare{Query: "SELECT v FROM ks.t_" + tok + " WHERE k = ?"}, nil)
				w.RunUntil(func() bool { return len(r.Replies) > 0 }, time.Minute)
				break
			}
		}
		if w.Stopped() {
			return
		}
		e.Res.Stats["probe.c12.executions_hours_after_prepare"]++
	}
	type rec struct {
		req *world.ClientReq
		g   world.GenReq
	}
	var recs []rec
	nOps := 10 + c.Choose("c12ops", 40)
	// some runs: a long history in which most requests are completed by the proxy itself (every
	// host of the plan answers "bootstrapping": the proxy runs out of hosts and says so), followed
	// by requests nothing is injected for. Whatever the proxy keeps per overridden request must be
	// given up however the request ends; the hundredth such request is treated like the first.
	longFailing := c.Choose("long-failing-history", 6) == 5
	if longFailing {
		nOps = 120 + c.Choose("c12longops", 200)
		e.Res.Stats["probe.c12.long_history_of_proxy_completed_requests"]++
	}
	sent := 0
	maxVal := []int{64, 4096, 65536}[c.Choose("maxval", 3)]
	var en []int
	w.Workload = func() int {
		en = en[:0]
		if sent >= nOps {
			return 0
		}
		for i, cl := range f.clients {
			if cl.Connected() && len(cl.Outstanding) < f.p.MaxInflight {
				en = append(en, i)
			}
		}
		return len(en)
	}
	forgetful := c.Choose("forgetful-nodes", 2) == 1
	var foreignWrites [][]byte
	if c.Choose("writes-prepared-elsewhere", 3) == 2 {
		for _, text := range []string{"UPDATE ks.t_elsewhere SET v = 1 WHERE k = ? IF v = 0", "INSERT INTO ks.t_elsewhere (k) VALUES (?) IF NOT EXISTS"} {
			id := world.PreparedID(text)
			w.ForeignPrepared(id, text)
			foreignWrites = append(foreignWrites, id)
		}
	}
	// some runs: a v3 client sets the CUSTOM_PAYLOAD header flag (0x04, defined from v4 on) and puts
	// a payload map in front of its message - a frame that is not well-formed under its version.
	// What becomes of that request is not judged (an error, a closed connection and even a lost
	// backend connection are all defensible); what every *other* request looks like at the
	// backend is judged as always, and no backend may receive bytes that are not a frame.
	misflag := c.Choose("v3-payload-flag", 3) == 2
	misflagged := map[*world.Client]bool{}
	w.DoWork = func(k int) {
		cl := f.clients[en[k]]
		sent++
		if misflag && cl.Version == primitive.ProtocolVersion3 && c.Choose("misflag-now", 5) == 4 {
			tok := w.NewToken()
			fr := frame.NewFrame(primitive.ProtocolVersion4, 0, world.QueryMsg("INSERT INTO ks.t (k, v) VALUES ('"+tok+"', 1)", world.AllConsistencies[c.Choose("misflag-cl", len(world.AllConsistencies))]))
			fr.SetCustomPayload(map[string][]byte{"k": []byte("v")})
			stream := cl.FreeStream()
			fr.Header.StreamId = stream
			raw, err := world.TryEncodeFrame("", fr)
			if err != nil {
				panic("harness: " + err.Error())
			}
			raw[0] = byte(primitive.ProtocolVersion3)
			cl.SendRaw(stream, "query", tok, raw, fr.Body.Message)
			misflagged[cl] = true
			e.Res.Stats["probe.c12.v3_frame_with_custom_payload_flag"]++
			return
		}
		if forgetful && c.Choose("forget", 6) == 5 {
			// a node loses its prepared statements (restart): the next EXECUTE there is answered
			// UNPREPARED, the proxy re-prepares on its own account and executes again; what the
			// proxy knows about the statement (SELECT or not) must survive that
			n := w.Nodes[c.Choose("forgetnode", len(w.Nodes))]
			n.Prepared = map[string]string{}
			e.Res.Stats["probe.c12.node_forgot_prepared_statements"]++
		}
		tok := w.NewToken()
		if len(foreignWrites) > 0 && c.Choose("foreign-write?", 8) == 7 {
			// EXECUTE of a write that was prepared elsewhere (before a restart of this proxy, through
			// another proxy): the proxy has never seen its PREPARE. An id it knows nothing about counts
			// as a write - the first time and every time after, whatever the results looked like
			id := foreignWrites[c.Choose("foreign-write", len(foreignWrites))]
			var rm []byte
			if cl.Version.SupportsResultMetadataId() {
				rm = id
			}
			lvl := world.AllConsistencies[c.Choose("foreign-write-cl", len(world.AllConsistencies))]
			g := world.GenReq{Kind: "execute", Msg: world.ExecMsg(id, rm, tok, lvl), CL: lvl, Desc: fmt.Sprintf("execute %s cl=%v of a write prepared elsewhere", cl.Version, lvl)}
			recs = append(recs, rec{cl.Send(g.Kind, tok, g.Msg, nil), g})
			e.Res.Stats["probe.c12.execute_of_write_prepared_elsewhere"]++
			return
		}
		g := world.GenRequest(c, cl.Version, tok, pw.execIDs, pw.execSelect, maxVal)
		for g.Kind == "prepare" {
			g = world.GenRequest(c, cl.Version, tok, pw.execIDs, pw.execSelect, maxVal)
			if c.Choose("stop-prepare-loop", 2) == 0 && g.Kind == "prepare" {
				g.Kind, g.Msg, g.CL, g.Select = "query", world.QueryMsg("DELETE FROM ks.t WHERE k = '"+tok+"'", world.AllConsistencies[c.Choose("cl", 11)]), 0, false
				g.CL = g.Msg.(*message.Query).Options.Consistency
			}
		}
		if longFailing && sent <= nOps-8 && c.Choose("fails-everywhere", 5) != 0 {
			boot := world.ErrOutcome("bootstrapping", &message.IsBootstrapping{ErrorMessage: "boot"})
			w.Script[tok] = []world.Outcome{boot, boot, boot, boot, boot}
		} else if c.Choose("retry", 4) == 3 {
			// the re-encoded frame object is sent again on every retry
			w.Script[tok] = []world.Outcome{world.ErrOutcome("bootstrapping", &message.IsBootstrapping{ErrorMessage: "boot"}), world.ErrOutcome("bootstrapping", &message.IsBootstrapping{ErrorMessage: "boot"})}
		}
		recs = append(recs, rec{cl.Send(g.Kind, tok, g.Msg, g.Mod), g})
	}
	ok := w.RunUntil(func() bool { return sent >= nOps && f.allAnswered() }, 30*time.Minute)
	w.Workload = nil
	e.Res.Shape = fmt.Sprintf("dse=%v list=%d override=%v", pw.dse, len(unsupported), override)
	if w.Stopped() {
		return
	}
	for _, cl := range f.clients {
		if !cl.Connected() && !cl.Gone && !misflagged[cl] {
			w.Violate("c12-reject", "valid-frame-rejected", fmt.Sprintf("%s (%s) sent only well-formed frames but the proxy closed its connection", cl, cl.Version))
			return
		}
	}
	if !ok {
		w.Violate("c12-drain", "request-not-answered", "a forwarded request got no reply")
		return
	}
	for _, bf := range w.BadFrames {
		if len(bf.Raw) > 4 && bf.Raw[4] == byte(primitive.OpCodePrepare) {
			// a PREPARE the proxy replays from its cache on a connection with another compression
			// than the preparing client's: the known finding of C08, not an overridden request
			e.Res.Stats["probe.c12.c08_known_reprepare_frame_seen"]++
			continue
		}
		w.Violate("c12-framing", "overridden-frame-not-well-framed", fmt.Sprintf("%s received a frame the reference codec cannot decode: %s", bf.Conn, bf.Err))
		return
	}
	overridden, untouched := 0, 0
	knownReprepareSeen := e.Res.Stats["probe.c12.c08_known_reprepare_frame_seen"] > 0
	for _, r := range recs {
		req, g := r.req, r.g
		expectOverride := len(unsupported) > 0 && !g.Select && inList[g.CL]
		if _, scripted := w.Script[req.Token]; !scripted && !forgetful && !knownReprepareSeen && len(misflagged) == 0 {
			// nothing was injected for this request: it reaches a backend and is answered by it,
			// overridden or not (a request that the proxy fails to re-encode is not "forwarded")
			if len(w.Attempts[req.Token]) == 0 {
				w.Violate("c12-served", "request-never-reached-a-backend("+req.Kind+" "+req.Client.Version.String()+")", fmt.Sprintf("%s [%s, select=%v] (override expected: %v) reached no backend; the client received %v", req, g.Desc, g.Select, expectOverride, replyMsg(req)))
				return
			}
			if em, isErr := replyMsg(req).(message.Error); isErr {
				w.Violate("c12-served", "request-failed-without-cause("+req.Kind+")", fmt.Sprintf("%s [%s, select=%v] (override expected: %v) was answered with %v although nothing was injected", req, g.Desc, g.Select, expectOverride, em))
				return
			}
			e.Res.Stats["oracle.c12.served_checked"]++
		}
		for i, a := range w.Attempts[req.Token] {
			what := fmt.Sprintf("%s [%s, select=%v] attempt #%d at %s (unsupported list %v, override %v)", req, g.Desc, g.Select, i+1, a.Conn, unsupported, override)
			if !expectOverride {
				if !sameButStream(req.Raw, a.Raw) {
					w.Violate("c12-untouched", "frame-modified-without-cause("+req.Kind+")", what+": must be forwarded unmodified; "+diffAt(req.Raw, a.Raw))
					return
				}
				untouched++
				continue
			}
			if req.Raw[1]&^0x01 != a.Raw[1]&^0x01 {
				w.Violate("c12-override", "override-changed-header-flags("+req.Kind+")", fmt.Sprintf("%s: header flags 0x%02x became 0x%02x (only COMPRESSED may differ)", what, req.Raw[1], a.Raw[1]))
				return
			}
			want, err1 := canon(req.Client.Compression, req.Raw, &override)
			got, err2 := canon(a.Compression, a.Raw, nil)
			if err1 != nil || err2 != nil {
				w.Violate("c12-framing", "overridden-frame-not-well-framed", fmt.Sprintf("%s: %v %v", what, err1, err2))
				return
			}
			if !bytes.Equal(want, got) {
				gotMsg, _ := world.DecodeFrame(a.Compression, a.Raw)
				sig := "override-changed-more-than-consistency(" + req.Kind + " " + req.Client.Version.String() + ")"
				if same, _ := canon(req.Client.Compression, req.Raw, nil); bytes.Equal(same, got) {
					sig = "override-not-applied(" + req.Kind + ")"
				}
				w.Violate("c12-override", sig, fmt.Sprintf("%s: the backend must receive the same request with consistency %v; %s; backend decoded %v", what, override, diffAt(want, got), gotMsg.Body.Message))
				return
			}
			overridden++
		}
	}
	e.Res.Stats["oracle.c12.overridden_attempts_checked"] += overridden
	e.Res.Stats["oracle.c12.untouched_attempts_checked"] += untouched
	e.Res.Nontrivial = overridden > 0
	e.Res.Sample = fmt.Sprintf("dse=%v unsupported=%v override=%v: %d requests, %d overridden attempts and %d untouched attempts compared", pw.dse, unsupported, override, len(recs), overridden, untouched)
}
