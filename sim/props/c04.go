package props

import (
	"fmt"
	"github.com/datastax/cql-proxy/proxy"
	"strings"
	"time"

	"cqlsim/world"

	"github.com/datastax/go-cassandra-native-protocol/message"
	"github.com/datastax/go-cassandra-native-protocol/primitive"
)

func init() { Scenarios["C04"] = c04 }

// outcomes after which a request may be sent again even if it is not idempotent
func safeToResend(outcome string) bool {
	switch {
	case outcome == "unavailable", outcome == "bootstrapping", outcome == "unprepared(auto)":
		return true
	case strings.HasPrefix(outcome, "read_timeout"):
		return true
	}
	return false
}

// outcomes the property lists as "may have been applied": write timeout, server/overloaded/
// truncate error, read/write failure (connection loss is tracked per attempt)
func maybeApplied(outcome string) bool {
	switch {
	case strings.HasPrefix(outcome, "write_timeout"):
		return true
	case strings.HasPrefix(outcome, "undecodable_"):
		return true
	case outcome == "server", outcome == "overloaded", outcome == "truncate", outcome == "read_failure", outcome == "write_failure":
		return true
	}
	return false
}

// eagerRetryPolicy retries everything it is asked about on the next host.
type eagerRetryPolicy struct{}

func (eagerRetryPolicy) OnReadTimeout(*message.ReadTimeout, int) proxy.RetryDecision {
	return proxy.RetryNext
}
func (eagerRetryPolicy) OnWriteTimeout(*message.WriteTimeout, int) proxy.RetryDecision {
	return proxy.RetryNext
}
func (eagerRetryPolicy) OnUnavailable(*message.Unavailable, int) proxy.RetryDecision {
	return proxy.RetryNext
}
func (eagerRetryPolicy) OnErrorResponse(message.Error, int) proxy.RetryDecision {
	return proxy.RetryNext
}

const connLostText = "unable to retry non-idempotent"

// C04 — non-idempotent requests are never re-executed once they may have been applied.
// Oracle over the backend execution log: for every request whose ground truth (by construction
// of the generator) is "not positively idempotent", an attempt that ended in a write timeout,
// server/overloaded/truncate error, read/write failure or in the loss of its connection is the
// last attempt, and the client's reply is that error or the proxy's connection-lost error.
func c04(e *Env) {
	c := e.C
	cfg := swarmWorld(e)
	cfg.IdempotentGraph = c.Choose("idemgraph", 3) == 2
	// The guarantee is the proxy's, not the retry policy's: a quarter of the runs configure a
	// policy (proxy.Config.RetryPolicy) that asks for the next host after every error it is asked
	// about. What is not positively idempotent must still not be sent again once it may have been applied.
	if c.Choose("eager-retry-policy", 4) == 3 {
		cfg.TweakProxy = func(pc *proxy.Config) { pc.RetryPolicy = eagerRetryPolicy{} }
		e.Res.Stats["probe.c04.eager_retry_policy"]++
	}
	p := fwdParams{
		ExoticErrors: true,
		Hosts:        1 + c.Choose("hosts", 4),
		NumConns:     1 + c.Choose("numconns", 2),
		Clients:      1 + c.Choose("clients", 3),
		OpsPerClient: 8 + c.Choose("ops", 24),
		MaxInflight:  1 + c.Choose("inflight", 6),
		ErrPerMille:  []int{800, 500, 950}[c.Choose("errrate", 3)],
		Faults:       2,
		//                    query prep exec batch sys opt reg use unsup execunk graph foreign
		Kinds:       []int{40, 10, 25, 12, 0, 0, 0, 0, 0, 2, 5, 6},
		Compression: []string{"", "", "lz4", "snappy"},
		Versions:    []primitive.ProtocolVersion{primitive.ProtocolVersion4, primitive.ProtocolVersion4, primitive.ProtocolVersion3},
		RichCQL:     true,
	}
	f := newFwd(e, p, cfg)
	if !f.bootOK() || !f.connectClients() {
		return
	}
	w := f.w
	f.runWorkload(10 * time.Minute)
	e.Res.Sample = f.sample()
	e.Res.Shape = fmt.Sprintf("h%d c%d cl%d g%v f%v", p.Hosts, p.NumConns, p.Clients, cfg.IdempotentGraph, f.fired)
	if w.Stopped() {
		return
	}
	if !f.clientsStillOpen("c04-connection") {
		return
	}
	checked, unsafeSeen := 0, 0
	for _, cl := range f.clients {
		for _, r := range cl.Reqs {
			ri := f.info[r]
			if ri == nil || r.Token == "" || ri.idem {
				continue
			}
			switch ri.kind {
			case "query", "execute", "batch", "graph", "execute-foreign", "execute-unknown":
			default:
				continue
			}
			atts := w.Attempts[r.Token]
			checked++
			for i, a := range atts {
				unsafe := a.Dropped || (a.Replied && maybeApplied(a.Outcome))
				if !unsafe {
					continue
				}
				unsafeSeen++
				if i+1 < len(atts) {
					how := a.Outcome
					if a.Dropped {
						how = "loss of the backend connection (" + a.Outcome + ")"
					}
					w.Violate("c04-reexec", "non-idempotent-reexecuted after "+classOf(a),
						fmt.Sprintf("request %s (%s, not idempotent: %s) reached %s as attempt #%d, which ended in %s, and was then sent again to %s (attempt #%d)",
							r, ri.kind, describe(r), a.Conn, i+1, how, atts[i+1].Conn, i+2))
					return
				}
				// last attempt: the client must see that error or the connection-lost error
				if !cl.Connected() || len(r.Replies) == 0 {
					continue
				}
				if x := r.Replies[0].Exotic; x != "" || (!a.Dropped && strings.HasPrefix(a.Outcome, "undecodable_")) {
					// an error response only the codec library cannot decode is passed on as it is
					if x != a.Outcome || !strings.Contains(string(r.Replies[0].Raw), r.Token) {
						w.Violate("c04-reply", "non-idempotent-wrong-reply", fmt.Sprintf("request %s: last attempt ended in %s but the client received %v (undecoded error: %q)", r, a.Outcome, replyMsg(r), x))
						return
					}
					continue
				}
				m := replyMsg(r)
				em, isErr := m.(message.Error)
				if !isErr {
					w.Violate("c04-reply", "non-idempotent-wrong-reply", fmt.Sprintf("request %s: last attempt ended in %s but the client received %v", r, a.Outcome, m))
					return
				}
				if a.Dropped {
					if !strings.Contains(em.GetErrorMessage(), connLostText) && !strings.Contains(em.GetErrorMessage(), "exhausted query plan") {
						w.Violate("c04-reply", "non-idempotent-wrong-reply", fmt.Sprintf("request %s: connection lost during attempt #%d but the client received %v", r, i+1, m))
						return
					}
				} else if !strings.Contains(em.GetErrorMessage(), r.Token) {
					w.Violate("c04-reply", "non-idempotent-wrong-reply", fmt.Sprintf("request %s: last attempt ended in %s but the client received %v", r, a.Outcome, m))
					return
				}
			}
		}
	}
	w.StatN("oracle.c04.nonidempotent_requests_checked", checked)
	w.StatN("probe.c04.unsafe_outcomes_on_nonidempotent", unsafeSeen)
}

func classOf(a *world.Attempt) string {
	if a.Dropped {
		return "connection-loss"
	}
	o := a.Outcome
	if strings.HasPrefix(o, "write_timeout") {
		return "write-timeout"
	}
	if strings.HasPrefix(o, "undecodable_") {
		return "undecodable-error"
	}
	return o
}

func describe(r *world.ClientReq) string {
	switch m := r.Msg.(type) {
	case *message.Query:
		return m.Query
	case *message.Execute:
		return fmt.Sprintf("EXECUTE %x", m.QueryId)
	case *message.Batch:
		var parts []string
		for _, ch := range m.Children {
			if ch.Query != "" {
				parts = append(parts, ch.Query)
			} else {
				parts = append(parts, fmt.Sprintf("id %x", ch.Id))
			}
		}
		return "BATCH[" + strings.Join(parts, "; ") + "]"
	}
	return fmt.Sprint(r.Msg)
}
