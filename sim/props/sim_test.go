package props

import (
	"crypto/sha256"
	"encoding/json"
	"fmt"
	"os"
	"path/filepath"
	"strconv"
	"strings"
	"testing"
	"time"
)

// ReplayFile is the self-contained record of a violation: replaying Choices against the same
// tree reproduces the same signature and the same event-log hash.
type ReplayFile struct {
	Property   string   `json:"property"`
	Tier       string   `json:"tier"`
	Seed       uint64   `json:"seed"`
	Signature  string   `json:"signature"`
	Oracle     string   `json:"oracle"`
	Detail     string   `json:"detail"`
	Choices    []int    `json:"choices"`
	LogHash    string   `json:"log_hash"`
	Steps      int64    `json:"steps"`
	SimMs      int64    `json:"sim_ms"`
	Original   int      `json:"original_choices"`
	ShrinkRuns int      `json:"shrink_runs"`
	Sample     string   `json:"sample"`
	Trace      []string `json:"trace"`
	Prelude    bool     `json:"prelude,omitempty"`
	Shard      int      `json:"shard,omitempty"`
}

func firstSig(r *Result) string {
	if len(r.Violations) == 0 {
		return ""
	}
	return r.Violations[0].Signature
}

// shrink minimises the choice list while the same violation signature persists.
func shrink(t *testing.T, prop, tier string, seed uint64, vals []int, sig string, budget int, stepCap int64) ([]int, int) {
	runs := 0
	ok := func(v []int) bool {
		if runs >= budget {
			return false
		}
		runs++
		r := RunOneCapped(t, prop, seed, v, tier, false, stepCap)
		return r.Infra == "" && firstSig(r) == sig
	}
	cur := append([]int(nil), vals...)
	// 1. drop the tail (missing choices read as 0: quiet continuation)
	for step := len(cur) / 2; step > 0; {
		if len(cur)-step >= 0 && ok(cur[:len(cur)-step]) {
			cur = cur[:len(cur)-step]
			if step > len(cur) {
				step = len(cur)
			}
		} else {
			step /= 2
		}
	}
	// 2. zero blocks
	for size := len(cur) / 2; size >= 1 && runs < budget; size /= 2 {
		for at := 0; at < len(cur) && runs < budget; at += size {
			end := at + size
			if end > len(cur) {
				end = len(cur)
			}
			nz := false
			for _, x := range cur[at:end] {
				if x != 0 {
					nz = true
					break
				}
			}
			if !nz {
				continue
			}
			cand := append([]int(nil), cur...)
			for i := at; i < end; i++ {
				cand[i] = 0
			}
			if ok(cand) {
				cur = cand
			}
		}
		if size == 1 {
			break
		}
	}
	// 3. drop trailing zeros
	for len(cur) > 0 && cur[len(cur)-1] == 0 {
		cur = cur[:len(cur)-1]
	}
	return cur, runs
}

func writeReplay(t *testing.T, dir string, res *Result, tier string, doShrink bool) string {
	sig := firstSig(res)
	vals := res.ChoiceVals
	orig := len(vals)
	runs := 0
	isRace := strings.HasPrefix(sig, "race:")
	if isRace {
		// the detector reports a pair of stacks once per process: neither shrinking nor an in-process
		// re-run can observe it again; the replay (seed + full choice list) reproduces in a fresh process
		doShrink = false
	}
	if doShrink {
		vals, runs = shrink(t, res.Prop, tier, res.Seed, vals, sig, envInt("SIM_SHRINK_BUDGET", 300), res.Steps*2+20000)
	}
	// final run with the full trace; must reproduce
	fin := res
	if !isRace {
		fin = RunOne(t, res.Prop, res.Seed, vals, tier, true)
	}
	if !isRace && firstSig(fin) != sig {
		// fall back to the unshrunk list
		vals = res.ChoiceVals
		fin = RunOne(t, res.Prop, res.Seed, vals, tier, true)
	}
	rf := ReplayFile{Property: res.Prop, Tier: tier, Seed: res.Seed, Signature: sig, Choices: vals,
		LogHash: fin.LogHash, Steps: fin.Steps, SimMs: fin.SimTimeMs, Original: orig, ShrinkRuns: runs, Sample: fin.Sample}
	if len(fin.Violations) > 0 {
		rf.Oracle = fin.Violations[0].Oracle
		rf.Detail = fin.Violations[0].Detail
	}
	tr := fin.Log
	if len(tr) > 600 {
		tr = append([]string{fmt.Sprintf("... %d earlier events omitted ...", len(tr)-600)}, tr[len(tr)-600:]...)
	}
	rf.Trace = tr
	h := sha256.Sum256([]byte(sig))
	name := fmt.Sprintf("%s-%d-%x.json", res.Prop, res.Seed, h[:4])
	_ = os.MkdirAll(dir, 0o755)
	path := filepath.Join(dir, name)
	js, _ := json.MarshalIndent(rf, "", " ")
	if err := os.WriteFile(path, js, 0o644); err != nil {
		t.Fatalf("cannot write replay file: %v", err)
	}
	return path
}

// TestSim is the worker entry point.
//
//	SIM_PROP      property id
//	SIM_SEEDS     start:count
//	SIM_TIER      quick|thorough
//	SIM_OUT       jsonl output file (one Result per run)
//	SIM_DEADLINE  unix seconds after which no new run is started
//	SIM_REPLAYDIR where replay files of violations are written (with shrinking)
//	SIM_REPLAY    replay file to re-execute (prints the trace)
//	SIM_LOG=1     print the event log of every run
func TestSim(t *testing.T) {
	prop := os.Getenv("SIM_PROP")
	if rp := os.Getenv("SIM_REPLAY"); rp != "" {
		replayMain(t, rp)
		return
	}
	if prop == "" {
		t.Skip("SIM_PROP not set")
	}
	tier := os.Getenv("SIM_TIER")
	if tier == "" {
		tier = "quick"
	}
	start, count := uint64(1), 1
	if s := os.Getenv("SIM_SEEDS"); s != "" {
		parts := strings.Split(s, ":")
		start, _ = strconv.ParseUint(parts[0], 10, 64)
		if len(parts) > 1 {
			count, _ = strconv.Atoi(parts[1])
		}
	}
	deadline := int64(envInt("SIM_DEADLINE", 0))
	keep := os.Getenv("SIM_LOG") != ""
	rdir := os.Getenv("SIM_REPLAYDIR")
	var out *os.File
	if p := os.Getenv("SIM_OUT"); p != "" {
		var err error
		out, err = os.Create(p)
		if err != nil {
			t.Fatal(err)
		}
		defer out.Close()
	}
	shrunk := map[string]bool{}
	emit := func(rec interface{}) {
		js, _ := json.Marshal(rec)
		if out != nil {
			out.Write(append(js, '\n'))
		} else {
			fmt.Println(string(js))
		}
	}
	if pre := Preludes[prop]; pre != nil {
		shard := int(start / uint64(max(count, 1)))
		t0 := time.Now()
		res := pre(tier, shard)
		res.Shard = shard
		res.Seed = start
		res.WallMs = time.Since(t0).Milliseconds()
		type outRec struct {
			*Result
			Replay string `json:"replay,omitempty"`
		}
		rec := outRec{Result: res}
		if sig := firstSig(res); sig != "" && rdir != "" {
			rf := ReplayFile{Property: prop, Tier: tier, Seed: start, Signature: sig, Oracle: res.Violations[0].Oracle, Detail: res.Violations[0].Detail, Prelude: true, Shard: shard, Sample: res.Sample}
			h := sha256.Sum256([]byte(sig))
			path := filepath.Join(rdir, fmt.Sprintf("%s-prelude%d-%x.json", prop, shard, h[:4]))
			_ = os.MkdirAll(rdir, 0o755)
			js, _ := json.MarshalIndent(rf, "", " ")
			_ = os.WriteFile(path, js, 0o644)
			rec.Replay = path
		}
		emit(rec)
	}
	for i := 0; i < count; i++ {
		if deadline > 0 && time.Now().Unix() >= deadline {
			break
		}
		seed := start + uint64(i)
		res := RunOne(t, prop, seed, nil, tier, keep)
		if keep {
			for _, l := range res.Log {
				fmt.Println(l)
			}
		}
		type outRec struct {
			*Result
			Replay string `json:"replay,omitempty"`
		}
		rec := outRec{Result: res}
		if sig := firstSig(res); sig != "" && rdir != "" && res.Infra == "" && !knownSig(sig) && !shrunk[sig] {
			// one replay file per signature and worker: the first occurrence, minimised
			rec.Replay = writeReplay(t, rdir, res, tier, len(shrunk) < 4)
			shrunk[sig] = true
		}
		emit(rec)
	}
}

func replayMain(t *testing.T, path string) {
	b, err := os.ReadFile(path)
	if err != nil {
		fmt.Printf("REPLAY-ERROR cannot read %s: %v\n", path, err)
		return
	}
	var rf ReplayFile
	if err := json.Unmarshal(b, &rf); err != nil {
		fmt.Printf("REPLAY-ERROR bad replay file: %v\n", err)
		return
	}
	var res *Result
	if rf.Prelude {
		res = Preludes[rf.Property](rf.Tier, rf.Shard)
		res.LogHash = rf.LogHash
	} else {
		res = RunOne(t, rf.Property, rf.Seed, rf.Choices, rf.Tier, true)
	}
	if os.Getenv("SIM_LOG") != "" {
		for _, l := range res.Log {
			fmt.Println(l)
		}
	}
	sig := firstSig(res)
	out := map[string]interface{}{"property": rf.Property, "expected_signature": rf.Signature, "signature": sig,
		"expected_log_hash": rf.LogHash, "log_hash": res.LogHash, "infra": res.Infra,
		"reproduced": sig == rf.Signature && sig != "", "exact": res.LogHash == rf.LogHash}
	js, _ := json.Marshal(out)
	fmt.Println("REPLAY-RESULT " + string(js))
}

// knownSig reports whether sig is listed in SIM_KNOWN_SIGS (signatures of known findings, for
// which no replay file is produced again: the committed exemplar stands for them).
func knownSig(sig string) bool {
	var sigs []string
	if err := json.Unmarshal([]byte(os.Getenv("SIM_KNOWN_SIGS")), &sigs); err != nil {
		return false
	}
	for _, s := range sigs {
		if s == sig {
			return true
		}
	}
	return false
}
