package props

import (
	"encoding/json"
	"fmt"
	"os"
	"strconv"
	"strings"
	"testing"
)

// TestSim is the worker entry point: SIM_PROP, SIM_SEEDS=start:count, SIM_TIER, SIM_OUT (jsonl),
// SIM_REPLAY (file with a JSON choice list), SIM_LOG=1 to print the event log.
func TestSim(t *testing.T) {
	prop := os.Getenv("SIM_PROP")
	if prop == "" {
		t.Skip("SIM_PROP not set")
	}
	tier := os.Getenv("SIM_TIER")
	if tier == "" {
		tier = "quick"
	}
	start, count := uint64(1), 1
	if s := os.Getenv("SIM_SEEDS"); s != "" {
		parts := strings.Split(s, ":")
		start, _ = strconv.ParseUint(parts[0], 10, 64)
		if len(parts) > 1 {
			count, _ = strconv.Atoi(parts[1])
		}
	}
	keep := os.Getenv("SIM_LOG") != ""
	var out *os.File
	if p := os.Getenv("SIM_OUT"); p != "" {
		var err error
		out, err = os.Create(p)
		if err != nil {
			t.Fatal(err)
		}
		defer out.Close()
	}
	for i := 0; i < count; i++ {
		seed := start + uint64(i)
		res := RunOne(t, prop, seed, nil, tier, keep)
		if keep {
			for _, l := range res.Log {
				fmt.Println(l)
			}
		}
		js, _ := json.Marshal(res)
		if out != nil {
			out.Write(append(js, '\n'))
		} else {
			fmt.Println(string(js))
		}
	}
}
