package props

import (
	"fmt"
	"strings"
	"time"

	"cqlsim/world"

	"github.com/datastax/go-cassandra-native-protocol/frame"
	"github.com/datastax/go-cassandra-native-protocol/message"
	"github.com/datastax/go-cassandra-native-protocol/primitive"
)

func init() { Scenarios["C09"] = c09 }

// ident is a CQL identifier as written: quoted identifiers compare exactly, unquoted ones case-insensitively.
type ident struct {
	text string // as written in the statement ("" = absent)
}

func (i ident) is(name string) bool {
	if i.text == "" {
		return false
	}
	if strings.HasPrefix(i.text, `"`) {
		return strings.Trim(i.text, `"`) == name
	}
	return strings.EqualFold(i.text, name)
}

var c09Virtual = []string{"local", "peers", "peers_v2", "schema_keyspaces", "schema_columnfamilies", "schema_columns", "schema_usertypes"}

// quoted spellings that are not all lower case name user keyspaces, not the system keyspace
var c09Keyspaces = []string{"", "system", "SYSTEM", `"system"`, "ks1", `"Ks3"`, "system_schema", `"System"`, `"SYSTEM"`}
var c09Qualifiers = []string{"", "system", "SYSTEM", "SyStEm", `"system"`, `"SYSTEM"`, "ks1", `"Ks3"`, "system_schema", "system_auth"}
var c09Tables = []string{"local", "peers", "peers_v2", "schema_keyspaces", "schema_columnfamilies", "schema_columns", "schema_usertypes",
	"LOCAL", "Peers", `"local"`, `"peers"`, `"LOCAL"`, "locals", "peer", "peers_v3", "t", "system", "schema_tables"}
var c09Selectors = []string{"*", "key", "key, rpc_address", "count(*)", "rpc_address AS a", "now()"}

func c09Resolve(current, qualifier, table string) bool {
	eff := ident{current}
	if qualifier != "" {
		eff = ident{qualifier}
	}
	if !eff.is("system") {
		return false
	}
	for _, v := range c09Virtual {
		if (ident{table}).is(v) {
			return true
		}
	}
	return false
}

// C09 — only USE and genuine system-table SELECTs are answered by the proxy itself.
func c09(e *Env) {
	c := e.C
	cfg := swarmWorld(e)
	cfg.WClock = 0
	cfg.BackendMax = 5
	cfg.ProxyVersion = 4
	cfg.ProxyMax = 5
	p := fwdParams{
		Hosts: 1 + c.Choose("hosts", 2), NumConns: 1, Clients: 1 + c.Choose("clients", 3), MaxInflight: 1,
		Kinds: []int{1}, Compression: []string{"", "", "lz4"}, Versions: []primitive.ProtocolVersion{4, 4, 3, 5}, FaultFree: true,
	}
	f := newFwd(e, p, cfg)
	if !f.bootOK() || !f.connectClients() {
		return
	}
	w := f.w
	for _, n := range w.Nodes {
		n.Keyspaces = map[string]bool{"system": true, "ks1": true, "Ks3": true, "system_schema": true, "System": true, "SYSTEM": true}
	}
	type stmtRec struct {
		req      *world.ClientReq
		handled  bool
		text     string
		current  string
		style    string
		execOf   *stmtRec
		prepared []byte
	}
	current := make([]string, len(f.clients))
	type c09sent struct {
		q, t, text string
		isSelect   bool
		tok        string
	}
	var history []c09sent
	// judged as it happens (a proxy that forwards such a statement may go on re-preparing it for
	// ever): a statement that the proxy answered itself never reaches a backend later
	answeredLocally := map[string]string{}
	w.OnAttempt = func(a *world.Attempt) {
		if text, ok := answeredLocally[a.Token]; ok {
			w.Violate("c09-route", "system-read-forwarded(later)", fmt.Sprintf("%s was answered by the proxy itself; later a %s carrying that statement reached %s", text, a.OpCode, a.Conn))
		}
	}
	checked, handledN, forwardedN := 0, 0, 0
	nOps := 30 + c.Choose("c09ops", 70)
	// systematic component: the cell index sweeps the cross product across seeds
	cell := int(e.Seed*7919) % (len(c09Keyspaces) * len(c09Qualifiers) * len(c09Tables))
	for op := 0; op < nOps && !w.Stopped(); op++ {
		ci := c.Choose("who", len(f.clients))
		cl := f.clients[ci]
		if !cl.Connected() {
			break
		}
		// sometimes change the connection's current keyspace
		if op == 0 || c.Choose("switchks", 6) == 5 {
			ks := c09Keyspaces[(cell/(len(c09Qualifiers)*len(c09Tables))+c.Choose("ksoff", len(c09Keyspaces)))%len(c09Keyspaces)]
			if ks != "" {
				// sometimes a node answers nothing while the USE is being decided: a session that
				// does not exist yet then fails to connect (time-out), the USE fails with the proxy's
				// own error, and the connection's current keyspace must be what it was before
				var stalled *world.Node
				if c.Choose("c09stall", 6) == 5 {
					stalled = w.Nodes[c.Choose("c09stallnode", len(w.Nodes))]
					stalled.Stalled = true
				}
				r := cl.Send("use", "", world.QueryMsg("USE "+ks, primitive.ConsistencyLevelOne), nil)
				if !w.RunUntil(func() bool { return len(r.Replies) > 0 }, 5*time.Minute) {
					if !w.Stopped() {
						w.Violate("c09-drain", "use-not-answered", "USE "+ks+" got no reply")
					}
					return
				}
				timedOut := false
				if stalled != nil {
					stalled.Unstall()
					w.RunUntil(func() bool { return false }, 3*time.Second)
					if _, failed := replyMsg(r).(message.Error); failed {
						e.Res.Stats["probe.c09.use_failed_by_timeout"]++
						timedOut = true
					}
				}
				if !timedOut {
					if _, ok := replyMsg(r).(*message.SetKeyspaceResult); !ok {
						w.Violate("c09-use", "use-failed", fmt.Sprintf("USE %s failed: %v", ks, replyMsg(r)))
						return
					}
					if len(w.Attempts["use:"+ks]) > 0 {
						w.Violate("c09-use", "use-forwarded", "USE reached a backend as a client request")
						return
					}
					current[ci] = ks
				}
			}
		}
		// sometimes the client *prepares* a USE (and does not execute it, or not yet): preparing a
		// statement changes nothing about the connection - the current keyspace is what it was
		if c.Choose("c09prepared-use", 8) == 7 {
			ks := c09Keyspaces[1+c.Choose("c09prepared-use-ks", len(c09Keyspaces)-1)]
			r := cl.Send("prepare", "", &message.Prepare{Query: "USE " + ks}, nil)
			if !w.RunUntil(func() bool { return len(r.Replies) > 0 }, 5*time.Minute) {
				if !w.Stopped() {
					w.Violate("c09-drain", "prepare-not-answered", "PREPARE of USE "+ks+" got no reply")
				}
				return
			}
			e.Res.Stats["probe.c09.use_prepared_but_not_executed"]++
		}
		cell++
		q := c09Qualifiers[(cell+c.Choose("qoff", len(c09Qualifiers)))%len(c09Qualifiers)]
		t := c09Tables[(cell/len(c09Qualifiers)+c.Choose("toff", len(c09Tables)))%len(c09Tables)]
		sel := c09Selectors[c.Choose("selector", len(c09Selectors))]
		tok := w.NewToken()
		from := t
		if q != "" {
			from = q + "." + t
		}
		trail := []string{" WHERE key = '" + tok + "'", " WHERE key = '" + tok + "' LIMIT 1", " WHERE key='" + tok + "' ALLOW FILTERING"}[c.Choose("trail", 3)]
		kind := c.Weighted("stmtkind", []int{12, 1, 1, 1})
		if kind == 0 && c.Choose("trail-without-where", 4) == 3 {
			// clauses that follow the table name directly (the token then travels as a column alias)
			trail = []string{" LIMIT 1", " ALLOW FILTERING", " ORDER BY key", " PER PARTITION LIMIT 1", " GROUP BY key", ";", " ;", ""}[c.Choose("trail2", 8)]
			sel = "key AS " + tok
			e.Res.Stats["probe.c09.clause_directly_after_table"]++
		}
		text, isSelect := "", false
		switch kind {
		case 0:
			kw := []string{"SELECT", "select", "Select"}[c.Choose("selcase", 3)]
			text, isSelect = kw+" "+sel+" FROM "+from+trail, true
		case 1:
			text = "INSERT INTO " + from + " (key, rpc_address) VALUES ('" + tok + "', '127.0.0.1')"
		case 2:
			text = "UPDATE " + from + " SET rpc_address = '127.0.0.1' WHERE key = '" + tok + "'"
		case 3:
			text = "DELETE FROM " + from + " WHERE key = '" + tok + "'"
		}
		// white space in front of the statement (editors, here-documents, Windows line ends) means nothing
		if c.Choose("c09lead?", 4) == 3 {
			text = []string{" ", "\t", "\n", "\r\n", "  \r\n\t ", "\n\n"}[c.Choose("c09lead", 6)] + text
			e.Res.Stats["probe.c09.leading_white_space"]++
		}
		// sometimes a text that was sent before, byte for byte, by whichever client and under
		// whatever keyspace is current now: who answers depends on the current keyspace, not on
		// what was decided for the same text earlier
		if len(history) > 0 && c.Choose("c09repeat", 4) == 3 {
			h := history[c.Choose("c09repeatwhich", len(history))]
			q, t, text, isSelect, tok = h.q, h.t, h.text, h.isSelect, h.tok
			e.Res.Stats["probe.c09.text_repeated"]++
		} else {
			history = append(history, c09sent{q, t, text, isSelect, tok})
		}
		attemptsBefore := len(w.Attempts[tok])
		effCurrent := current[ci]
		style := []string{"query", "prepare"}[c.Choose("style", 2)]
		var msg message.Message = world.QueryMsg(text, primitive.ConsistencyLevelOne)
		if style == "prepare" {
			pm := &message.Prepare{Query: text}
			if cl.Version == 5 && c.Choose("prepks", 3) == 2 {
				// v5 PREPARE may name the keyspace the statement resolves in
				pm.Keyspace = c09Keyspaces[1+c.Choose("prepksw", len(c09Keyspaces)-1)]
				effCurrent = pm.Keyspace
			}
			msg = pm
		}
		expectHandled := isSelect && c09Resolve(effCurrent, q, t)
		// frame options do not change who answers: a custom payload (here the one DSE graph
		// requests carry) or the tracing flag on a statement the proxy must answer itself
		var mod func(*frame.Frame)
		if cl.Version >= 4 && style == "query" && c.Choose("c09payload", 6) == 5 {
			key := []string{"graph-source", "graph-language", "x"}[c.Choose("c09payloadkey", 3)]
			mod = func(fr *frame.Frame) { fr.SetCustomPayload(map[string][]byte{key: []byte("g")}) }
			e.Res.Stats["probe.c09.statement_with_custom_payload"]++
		} else if c.Choose("c09tracing", 8) == 7 {
			mod = func(fr *frame.Frame) { fr.RequestTracingId(true) }
		}
		r := cl.Send(style, tok, msg, mod)
		if !w.RunUntil(func() bool { return len(r.Replies) > 0 || !cl.Connected() }, 5*time.Minute) || !cl.Connected() {
			if !w.Stopped() {
				w.Violate("c09-drain", "statement-not-answered", fmt.Sprintf("%q (current keyspace %q) got no reply (connection open=%v)", text, effCurrent, cl.Connected()))
			}
			return
		}
		w.Quiesce()
		reached := len(w.Attempts[tok]) > attemptsBefore
		desc := fmt.Sprintf("%s of %q with current keyspace %q", strings.ToUpper(style), text, effCurrent)
		// what kind of mismatch: qualifier ignored, case rule, look-alike table ...
		if expectHandled && reached {
			w.Violate("c09-route", "system-read-forwarded", desc+": this is a read of a virtualised system table and must be answered by the proxy, but it reached "+w.Attempts[tok][len(w.Attempts[tok])-1].Conn.String())
			return
		}
		if !expectHandled && !reached {
			why := "other"
			switch {
			case q != "" && !(ident{q}).is("system") && (ident{effCurrent}).is("system"):
				why = "qualifier ignored while the current keyspace is system"
			case !isSelect:
				why = "not a SELECT"
			}
			w.Violate("c09-route", "foreign-statement-intercepted("+why+")", desc+": this statement does not address a virtualised system table and must be forwarded, but the proxy answered it itself with "+fmt.Sprint(replyMsg(r)))
			return
		}
		if expectHandled {
			handledN++
			if q != "" {
				// (qualified: who answers does not depend on the keyspace that is current when the
				// same text is sent again)
				answeredLocally[tok] = text
			}
		} else {
			forwardedN++
		}
		checked++
		// a prepared system statement is executed locally too
		if style == "prepare" && expectHandled {
			if pr, ok := replyMsg(r).(*message.PreparedResult); ok {
				tok2 := w.NewToken()
				ex := cl.Send("execute", tok2, world.ExecMsg(pr.PreparedQueryId, pr.ResultMetadataId, tok2, primitive.ConsistencyLevelOne), nil)
				if !w.RunUntil(func() bool { return len(ex.Replies) > 0 }, 5*time.Minute) {
					return
				}
				w.Quiesce()
				if len(w.Attempts[tok2]) > 0 {
					w.Violate("c09-route", "system-read-forwarded", "EXECUTE of the locally prepared "+text+" reached a backend")
					return
				}
				// drivers prepare on one connection and execute on any: the same id arrives on a
				// connection that never prepared it. Whatever the proxy answers there (an id unknown to
				// that connection may be forwarded and come back UNPREPARED), the statement itself -
				// a read of a system table - never reaches a backend, as a PREPARE or otherwise
				if len(f.clients) > 1 && c.Choose("c09exec-elsewhere", 3) == 2 {
					other := f.clients[(ci+1+c.Choose("c09otherclient", len(f.clients)-1))%len(f.clients)]
					if other != cl && other.Connected() && other.Version == cl.Version {
						tok3 := w.NewToken()
						ex2 := other.Send("execute", tok3, world.ExecMsg(pr.PreparedQueryId, pr.ResultMetadataId, tok3, primitive.ConsistencyLevelOne), nil)
						if !w.RunUntil(func() bool { return len(ex2.Replies) > 0 }, 5*time.Minute) {
							return
						}
						w.Quiesce()
						if len(w.Attempts[tok]) > attemptsBefore {
							a := w.Attempts[tok][len(w.Attempts[tok])-1]
							w.Violate("c09-route", "system-read-forwarded(after EXECUTE on another connection)", fmt.Sprintf("%s was prepared by %s and answered by the proxy; after %s executed its id, a %s carrying the statement reached %s", text, cl, other, a.OpCode, a.Conn))
							return
						}
						if rr, ok := replyMsg(ex2).(*message.RowsResult); ok {
							for _, row := range rr.Data {
								for _, colv := range row {
									if strings.Contains(string(colv), world.SentinelClusterName) || strings.Contains(string(colv), "rack-backend") {
										w.Violate("c09-leak", "backend-topology-leaked", desc+": executed on another connection, the client received a row of the backend's own system table")
										return
									}
								}
							}
						}
						e.Res.Stats["probe.c09.system_statement_executed_on_another_connection"]++
					}
				}
			}
		}
		// nothing of the real topology may ever be shown to a client
		for _, rep := range r.Replies {
			if rep.Frame == nil {
				continue
			}
			if rr, ok := rep.Frame.Body.Message.(*message.RowsResult); ok {
				for _, row := range rr.Data {
					for _, colv := range row {
						if strings.Contains(string(colv), world.SentinelClusterName) || strings.Contains(string(colv), "rack-backend") {
							w.Violate("c09-leak", "backend-topology-leaked", desc+": the client received a row of the backend's own system table")
							return
						}
					}
				}
			}
		}
	}
	// many prepared system statements on one connection: however many a client prepares, the
	// EXECUTE of each of them is answered by the proxy (none is forgotten and then forwarded)
	if !w.Stopped() && f.clients[0].Connected() && c.Choose("manyprepared", 3) == 2 {
		cl := f.clients[0]
		type sp struct {
			id, rm []byte
			text   string
		}
		var sps []sp
		n := 20 + c.Choose("manyn", 60)
		for i := 0; i < n && !w.Stopped(); i++ {
			tok := w.NewToken()
			text := []string{"SELECT * FROM system.local WHERE key = '" + tok + "'", "SELECT key, rpc_address FROM system.peers WHERE key = '" + tok + "'", "SELECT * FROM system.peers_v2 WHERE key = '" + tok + "'"}[c.Choose("manytab", 3)]
			r := cl.Send("prepare", tok, &message.Prepare{Query: text}, nil)
			if !w.RunUntil(func() bool { return len(r.Replies) > 0 }, 5*time.Minute) {
				return
			}
			if pr, ok := replyMsg(r).(*message.PreparedResult); ok {
				sps = append(sps, sp{pr.PreparedQueryId, pr.ResultMetadataId, text})
			}
			if len(w.Attempts[tok]) > 0 {
				w.Violate("c09-route", "system-read-forwarded", "PREPARE of "+text+" reached a backend")
				return
			}
		}
		for k := 0; k < 6 && len(sps) > 0 && !w.Stopped(); k++ {
			p := sps[c.Choose("manyexec", len(sps))]
			if k == 0 {
				p = sps[0]
			}
			tok2 := w.NewToken()
			ex := cl.Send("execute", tok2, world.ExecMsg(p.id, p.rm, tok2, primitive.ConsistencyLevelOne), nil)
			if !w.RunUntil(func() bool { return len(ex.Replies) > 0 }, 5*time.Minute) {
				return
			}
			w.Quiesce()
			if len(w.Attempts[tok2]) > 0 {
				w.Violate("c09-route", "system-read-forwarded", fmt.Sprintf("EXECUTE of the locally prepared %q reached a backend after %d system statements had been prepared on the connection", p.text, len(sps)))
				return
			}
			if _, isErr := replyMsg(ex).(message.Error); isErr && !strings.Contains(p.text, "peers_v2") {
				w.Violate("c09-route", "prepared-system-read-failed", fmt.Sprintf("EXECUTE of the locally prepared %q was answered with %v", p.text, replyMsg(ex)))
				return
			}
		}
		e.Res.Stats["probe.c09.many_prepared_system_statements"]++
	}
	// token-less spellings: the backend must never see a client-originated read of its system tables
	if !w.Stopped() {
		before := w.Stats["backend.system_local"] + w.Stats["backend.system_peers"]
		cl := f.clients[0]
		if cl.Connected() {
			for _, text := range []string{"SELECT * FROM system.local", "select * from system.peers", "SELECT * FROM SYSTEM.PEERS"} {
				r := cl.Send("query", "", world.QueryMsg(text, primitive.ConsistencyLevelOne), nil)
				w.RunUntil(func() bool { return len(r.Replies) > 0 }, time.Minute)
			}
			w.Quiesce()
			if after := w.Stats["backend.system_local"] + w.Stats["backend.system_peers"]; after != before && !w.Stopped() {
				w.Violate("c09-route", "system-read-forwarded", "a plain read of system.local/system.peers reached a backend on a pooled connection")
				return
			}
		}
	}
	e.Res.Stats["oracle.c09.statements_checked"] += checked
	e.Res.Stats["probe.c09.handled"] += handledN
	e.Res.Stats["probe.c09.forwarded"] += forwardedN
	e.Res.Nontrivial = handledN > 0 && forwardedN > 0
	e.Res.Sample = fmt.Sprintf("%d statements routed (%d answered locally, %d forwarded) over %d clients", checked, handledN, forwardedN, len(f.clients))
	e.Res.Shape = fmt.Sprintf("cl%d cell%d", len(f.clients), cell%64)
}
