package props

import (
	"archive/zip"
	"bytes"
	"crypto/ed25519"
	"crypto/rand"
	"crypto/tls"
	"crypto/x509"
	"crypto/x509/pkix"
	"encoding/json"
	"encoding/pem"
	"fmt"
	"math/big"
	"sort"
	"strings"
	"sync"
	"time"

	"cqlsim/simnet"
	"cqlsim/simrt"
	"cqlsim/world"

	"github.com/datastax/cql-proxy/astra"
	"github.com/datastax/cql-proxy/proxy"
	"github.com/datastax/go-cassandra-native-protocol/message"
	"github.com/datastax/go-cassandra-native-protocol/primitive"
)

func init() { Scenarios["C19"] = c19 }

// keys are minted once per process (key generation is the expensive part)
var (
	c19Once sync.Once
	c19Keys []ed25519.PrivateKey
)

func c19key(i int) ed25519.PrivateKey {
	c19Once.Do(func() {
		for k := 0; k < 8; k++ {
			_, priv, err := ed25519.GenerateKey(rand.Reader)
			if err != nil {
				panic(err)
			}
			c19Keys = append(c19Keys, priv)
		}
	})
	return c19Keys[i]
}

type certSpec struct {
	cn        string
	dns       []string
	notBefore time.Time
	notAfter  time.Time
	isCA      bool
}

func mintCert(spec certSpec, key ed25519.PrivateKey, parent *x509.Certificate, parentKey ed25519.PrivateKey, serial int64) (*x509.Certificate, []byte) {
	tpl := &x509.Certificate{
		SerialNumber: big.NewInt(serial), Subject: pkix.Name{CommonName: spec.cn}, DNSNames: spec.dns,
		NotBefore: spec.notBefore, NotAfter: spec.notAfter, BasicConstraintsValid: true, IsCA: spec.isCA,
		KeyUsage: x509.KeyUsageDigitalSignature, ExtKeyUsage: []x509.ExtKeyUsage{x509.ExtKeyUsageServerAuth, x509.ExtKeyUsageClientAuth},
	}
	if spec.isCA {
		tpl.KeyUsage |= x509.KeyUsageCertSign
	}
	if parent == nil {
		parent, parentKey = tpl, key
	}
	der, err := x509.CreateCertificate(rand.Reader, tpl, parent, key.Public(), parentKey)
	if err != nil {
		panic(err)
	}
	c, err := x509.ParseCertificate(der)
	if err != nil {
		panic(err)
	}
	return c, der
}

func pemCert(der []byte) []byte {
	return pem.EncodeToMemory(&pem.Block{Type: "CERTIFICATE", Bytes: der})
}
func pemKey(k ed25519.PrivateKey) []byte {
	b, err := x509.MarshalPKCS8PrivateKey(k)
	if err != nil {
		panic(err)
	}
	return pem.EncodeToMemory(&pem.Block{Type: "PRIVATE KEY", Bytes: b})
}

var c19Kinds = []string{"valid", "other-ca", "self-signed", "wrong-name", "expired", "not-yet-valid", "intermediate-present", "intermediate-missing", "no-certificate", "expires-during-run",
	"impostor-ca-then-genuine-leaf", "impostor-leaf-then-genuine-leaf",
	"expired-intermediate-present", "not-yet-valid-intermediate-present", "expired-impostor-ca-present",
	// "+ca": the same chain with the bundle's CA certificate (public, after all) appended - more
	// certificates on the wire must not make a server more acceptable
	"valid+ca", "wrong-name+ca", "expired+ca", "not-yet-valid+ca", "other-ca+ca", "self-signed+ca", "intermediate-missing+ca"}

type c19pki struct {
	caCert, otherCA *x509.Certificate
	caDER           []byte
	caKey, otherKey ed25519.PrivateKey
	clientDER       []byte
	clientKey       ed25519.PrivateKey
	host            string
	now             time.Time
}

// serverChain builds the certificate chain a fake server presents for one of the kinds.
func (p *c19pki) serverChain(kind string) *tls.Certificate {
	if base := strings.TrimSuffix(kind, "+ca"); base != kind {
		ch := p.serverChain(base)
		if ch != nil {
			ch.Certificate = append(ch.Certificate, p.caDER)
		}
		return ch
	}
	leafKey := c19key(4)
	day := 24 * time.Hour
	spec := certSpec{cn: p.host, dns: []string{p.host}, notBefore: p.now.Add(-time.Hour), notAfter: p.now.Add(30 * day)}
	signer, signerKey := p.caCert, p.caKey
	var chain [][]byte
	switch kind {
	case "valid":
	case "other-ca":
		signer, signerKey = p.otherCA, p.otherKey
	case "self-signed":
		signer, signerKey = nil, nil
	case "wrong-name":
		spec.cn, spec.dns = "evil.example", []string{"evil.example", "*.evil.example"}
	case "expired":
		spec.notBefore, spec.notAfter = p.now.Add(-60*day), p.now.Add(-time.Hour)
	case "not-yet-valid":
		spec.notBefore, spec.notAfter = p.now.Add(time.Hour), p.now.Add(60*day)
	case "expires-during-run":
		spec.notAfter = p.now.Add(30 * time.Minute)
	case "intermediate-present", "intermediate-missing":
		interKey := c19key(5)
		inter, interDER := mintCert(certSpec{cn: "intermediate", notBefore: p.now.Add(-time.Hour), notAfter: p.now.Add(30 * day), isCA: true}, interKey, p.caCert, p.caKey, 77)
		signer, signerKey = inter, interKey
		if kind == "intermediate-present" {
			chain = append(chain, interDER)
		}
	case "expired-intermediate-present", "not-yet-valid-intermediate-present":
		// the leaf is within its validity period, the certificate that issued it is not (and is presented)
		interKey := c19key(5)
		nb, na := p.now.Add(-60*day), p.now.Add(-time.Hour)
		if kind == "not-yet-valid-intermediate-present" {
			nb, na = p.now.Add(time.Hour), p.now.Add(60*day)
		}
		inter, interDER := mintCert(certSpec{cn: "intermediate", notBefore: nb, notAfter: na, isCA: true}, interKey, p.caCert, p.caKey, 78)
		signer, signerKey = inter, interKey
		chain = append(chain, interDER)
	case "expired-impostor-ca-present":
		// an authority unrelated to the bundle's, itself expired, presented together with a fresh leaf it issued
		impCAKey := c19key(7)
		impCA, impCADER := mintCert(certSpec{cn: "impostor-ca", notBefore: p.now.Add(-60 * day), notAfter: p.now.Add(-time.Hour), isCA: true}, impCAKey, nil, nil, 79)
		signer, signerKey = impCA, impCAKey
		chain = append(chain, impCADER)
	case "no-certificate":
		return nil
	case "impostor-ca-then-genuine-leaf", "impostor-leaf-then-genuine-leaf":
		// The server proves possession of a key of its own (a self-signed certificate, with or
		// without the CA flag) and appends the genuine node certificate, which is public: what
		// must be verified is the certificate whose key the handshake proved, i.e. the first.
		_, genuine := mintCert(spec, leafKey, p.caCert, p.caKey, 1000)
		impKey := c19key(6)
		imp := spec
		imp.isCA = kind == "impostor-ca-then-genuine-leaf"
		_, impDER := mintCert(imp, impKey, nil, nil, 2000)
		return &tls.Certificate{Certificate: [][]byte{impDER, genuine}, PrivateKey: impKey}
	}
	_, der := mintCert(spec, leafKey, signer, signerKey, 1000)
	return &tls.Certificate{Certificate: append([][]byte{der}, chain...), PrivateKey: leafKey}
}

func keysOfBool(m map[string]bool) []string {
	var out []string
	for k := range m {
		out = append(out, k)
	}
	sort.Strings(out)
	return out
}

func c19Valid(kind string, expiredNow bool) bool {
	switch strings.TrimSuffix(kind, "+ca") {
	case "valid", "intermediate-present":
		return true
	case "expires-during-run":
		return !expiredNow
	}
	return false
}

type tlsConnRecord struct {
	resumed    bool
	service    string
	kind       string
	handshake  error
	sni        string
	clientCert bool
	appBytes   int
	at         time.Duration
	hsDone     bool
}

// C19 — Astra bundle connections authenticate the server and identify the client.
func c19(e *Env) {
	c := e.C
	cfg := swarmWorld(e)
	cfg.WClock = 0
	cfg.FragProb = 0 // TLS record contents are random: no choice may depend on them
	cfg.Hosts = 1 + c.Choose("hosts", 3)
	cfg.NumConns = 1 + c.Choose("numconns", 3) // several handshakes with one endpoint configuration at a time
	cfg.KeepLog = e.Keep
	cfg.ReconnBase, cfg.ReconnMax = time.Second, 5*time.Second
	w := world.New(cfg, e.S, e.N, e.C)
	e.W = w
	now := time.Now()
	host := []string{"db-1234.astra.example", "a.b.c.db.astra.test", "x1"}[c.Choose("bundlehost", 3)]
	pki := &c19pki{host: host, now: now, caKey: c19key(0), otherKey: c19key(1), clientKey: c19key(2)}
	day := 24 * time.Hour
	pki.caCert, pki.caDER = mintCert(certSpec{cn: "bundle-ca", notBefore: now.Add(-day), notAfter: now.Add(365 * day), isCA: true}, pki.caKey, nil, nil, 1)
	var otherDER []byte
	pki.otherCA, otherDER = mintCert(certSpec{cn: "other-ca", notBefore: now.Add(-day), notAfter: now.Add(365 * day), isCA: true}, pki.otherKey, nil, nil, 2)
	_, pki.clientDER = mintCert(certSpec{cn: "bundle-client", notBefore: now.Add(-day), notAfter: now.Add(365 * day)}, pki.clientKey, pki.caCert, pki.caKey, 3)
	// systematic: kinds sweep with the seed
	metaKind := c19Kinds[int(e.Seed)%len(c19Kinds)]
	sniKind := c19Kinds[int(e.Seed/uint64(len(c19Kinds)))%len(c19Kinds)]
	if c.Choose("bothvalid", 3) == 0 {
		metaKind = "valid"
	}
	if metaKind == "expires-during-run" {
		metaKind = "valid"
	}
	// the bundle -- and, in some runs, a second bundle of another database (its CA is the "other" CA
	// the impostors chain to) loaded by the same process before or after it: what a connection
	// configured from one bundle trusts must not depend on which other bundles exist
	loadBundle := func(host string, caDER, clientDER []byte, key ed25519.PrivateKey) (*astra.Bundle, error) {
		var zbuf bytes.Buffer
		zw := zip.NewWriter(&zbuf)
		add := func(name string, b []byte) {
			f, _ := zw.Create(name)
			f.Write(b)
		}
		cj, _ := json.Marshal(map[string]interface{}{"host": host, "port": 29080})
		add("config.json", cj)
		add("ca.crt", pemCert(caDER))
		add("cert", pemCert(clientDER))
		add("key", pemKey(key))
		add("README", []byte("not used"))
		zw.Close()
		zr, err := zip.NewReader(bytes.NewReader(zbuf.Bytes()), int64(zbuf.Len()))
		if err != nil {
			return nil, err
		}
		return astra.LoadBundleZip(zr)
	}
	second := c.Choose("second-bundle", 3)
	loadSecond := func() bool {
		_, otherClient := mintCert(certSpec{cn: "other-client", notBefore: now.Add(-day), notAfter: now.Add(365 * day)}, pki.clientKey, pki.otherCA, pki.otherKey, 4)
		if _, err := loadBundle("other-db.astra.example", otherDER, otherClient, pki.clientKey); err != nil {
			e.Res.Infra = "LoadBundleZip failed on a well-formed second bundle: " + err.Error()
			return false
		}
		e.Res.Stats["probe.c19.second_bundle_loaded"]++
		return true
	}
	if second == 1 && !loadSecond() {
		return
	}
	bundle, err := loadBundle(host, pki.caDER, pki.clientDER, pki.clientKey)
	if err != nil {
		e.Res.Infra = "LoadBundleZip failed on a well-formed bundle: " + err.Error()
		return
	}
	if second == 2 && !loadSecond() {
		return
	}
	// nodes are reached through the SNI proxy by host id
	hostID := map[string]*world.Node{}
	var contactPoints []string
	for _, n := range w.Nodes {
		id := n.HostID.String()
		hostID[id] = n
		contactPoints = append(contactPoints, id)
	}
	const sniAddr = "10.9.0.1:29042"
	w.N.Lookup = func(h string) ([]string, error) {
		if h == "sni.astra.example" {
			return []string{"10.9.0.1"}, nil
		}
		return nil, fmt.Errorf("no such host %s", h)
	}
	var recs []*tlsConnRecord
	expired := false
	curSniKind := sniKind // what the SNI proxy presents to connections made from now on
	serve := func(service, kind0 string, app func(tc *tls.Conn, rec *tlsConnRecord)) func(*simnet.PeerEnd) {
		return func(pe *simnet.PeerEnd) {
			kind := kind0
			if kind == "@sni" {
				kind = curSniKind
			}
			rec := &tlsConnRecord{service: service, kind: kind, at: w.Now()}
			recs = append(recs, rec)
			scfg := &tls.Config{ClientAuth: tls.RequestClientCert, MinVersion: tls.VersionTLS12}
			// one long-lived server: session tickets issued on one connection are honoured on the
			// next (a client that resumes a session is shown no chain at all)
			var tk [32]byte
			copy(tk[:], "c19 ticket key of "+service)
			scfg.SetSessionTicketKeys([][32]byte{tk})
			if ch := pki.serverChain(kind); ch != nil {
				scfg.Certificates = []tls.Certificate{*ch}
			}
			scfg.GetConfigForClient = func(hi *tls.ClientHelloInfo) (*tls.Config, error) {
				rec.sni = hi.ServerName
				return nil, nil
			}
			tc := tls.Server(pe, scfg)
			rec.handshake = tc.Handshake()
			rec.hsDone = true
			if rec.handshake != nil {
				w.Logf("tls %s(%s): handshake failed", service, kind)
				// whatever else arrives is counted: a rejected server must see no application data
				buf := make([]byte, 4096)
				for {
					n, err := pe.Read(buf)
					_ = n
					if err != nil {
						break
					}
				}
				pe.Close()
				return
			}
			w.Logf("tls %s(%s): handshake complete sni=%s", service, kind, rec.sni)
			if tc.ConnectionState().DidResume {
				e.Res.Stats["probe.c19.resumed_sessions"]++
				rec.resumed = true
			}
			rec.clientCert = len(tc.ConnectionState().PeerCertificates) > 0 && bytes.Equal(tc.ConnectionState().PeerCertificates[0].Raw, pki.clientDER)
			app(tc, rec)
		}
	}
	metaJSON, _ := json.Marshal(map[string]interface{}{"version": 1, "region": "dc1", "contact_info": map[string]interface{}{
		"type": "sni_proxy", "local_dc": "dc1", "sni_proxy_address": "sni.astra.example:29042", "contact_points": contactPoints}})
	w.Services = map[string]func(*simnet.PeerEnd){
		host + ":29080": serve("metadata", metaKind, func(tc *tls.Conn, rec *tlsConnRecord) {
			buf := make([]byte, 4096)
			var req []byte
			for !bytes.Contains(req, []byte("\r\n\r\n")) {
				n, err := tc.Read(buf)
				rec.appBytes += n
				req = append(req, buf[:n]...)
				if err != nil {
					return
				}
			}
			fmt.Fprintf(tc, "HTTP/1.1 200 OK\r\nContent-Type: application/json\r\nContent-Length: %d\r\nConnection: close\r\n\r\n%s", len(metaJSON), metaJSON)
			tc.Close()
		}),
		sniAddr: serve("sni-proxy", "@sni", func(tc *tls.Conn, rec *tlsConnRecord) {
			n := hostID[rec.sni]
			if n == nil || !n.Up {
				tc.Close()
				return
			}
			bc := n.NewStreamConn(func(b []byte) { tc.Write(b) })
			buf := make([]byte, 65536)
			for {
				k, err := tc.Read(buf)
				rec.appBytes += k
				if k > 0 {
					bc.Feed(buf[:k])
				}
				if err != nil {
					bc.Closed = true
					return
				}
			}
		}),
	}
	// one of several contact points is down while the proxy starts: the others are tried, each
	// under its own name
	downAtBoot := false
	if len(w.Nodes) > 1 && c.Choose("contact-point-down-at-boot", 3) == 2 {
		w.Nodes[c.Choose("which-contact-point-down", len(w.Nodes))].Crash()
		downAtBoot = true
		e.Res.Stats["probe.c19.contact_point_down_at_boot"]++
	}
	// the proxy, configured from the bundle
	pi := w.StartProxy("127.0.0.1:9042", nil, func(pc *proxy.Config) {
		pc.Resolver = astra.NewResolver(bundle, 10*time.Second)
	})
	w.RunUntil(func() bool { return pi.Booted }, 5*time.Minute)
	if w.Stopped() {
		return
	}
	pi.BootSync()
	wantBoot := c19Valid(metaKind, false) && c19Valid(sniKind, false)
	booted := pi.BootErr == nil && pi.Listener != nil
	detail := fmt.Sprintf("bundle host %q, metadata service presents %s, SNI proxy presents %s", host, metaKind, sniKind)
	check := func() bool {
		w.Quiesce()
		for _, r := range recs {
			if !r.hsDone {
				continue // still shaking hands
			}
			valid := c19Valid(r.kind, expired && r.at > 30*time.Minute)
			accepted := r.handshake == nil
			who := fmt.Sprintf("%s connection at %v (%s)", r.service, r.at, r.kind)
			if accepted && !valid {
				w.Violate("c19-auth", "invalid-server-accepted("+r.kind+")", fmt.Sprintf("%s: the proxy completed the TLS handshake with a server whose chain is %s; %s", who, r.kind, detail))
				return false
			}
			if !accepted && valid {
				w.Violate("c19-auth", "valid-server-rejected("+r.kind+")", fmt.Sprintf("%s: the proxy rejected a valid chain: %v; %s", who, r.handshake, detail))
				return false
			}
			if !accepted && r.appBytes > 0 {
				w.Violate("c19-auth", "application-bytes-to-rejected-server", fmt.Sprintf("%s received %d application bytes", who, r.appBytes))
				return false
			}
			if accepted {
				if !r.clientCert {
					w.Violate("c19-identity", "client-certificate-not-presented", who+": the bundle's client certificate was not presented")
					return false
				}
				wantSNI := host
				if r.service == "sni-proxy" {
					if hostID[r.sni] == nil {
						w.Violate("c19-identity", "wrong-sni", fmt.Sprintf("%s: SNI %q is not a node host id / contact point", who, r.sni))
						return false
					}
					wantSNI = r.sni
				}
				if r.sni != wantSNI {
					w.Violate("c19-identity", "wrong-sni", fmt.Sprintf("%s: SNI %q, expected %q", who, r.sni, wantSNI))
					return false
				}
			}
		}
		return true
	}
	if !check() {
		return
	}
	if downAtBoot && wantBoot && !booted {
		// Whether a proxy starts while one of its nodes is down is not this property's business (the
		// SNI proxy closes the connection after the handshake, which start-up may or may not
		// tolerate). What is: it did not give up before it had asked for every contact point that
		// is up, each under its own name.
		asked := map[string]bool{}
		for _, r := range recs {
			if r.service == "sni-proxy" {
				asked[r.sni] = true
			}
		}
		for id, n := range hostID {
			if n.Up && !asked[id] {
				w.Violate("c19-identity", "live-contact-point-never-asked-for", fmt.Sprintf("%s: start-up failed (%v) with node %s up, but no connection ever named it in the SNI (names seen: %v)", detail, pi.BootErr, n, keysOfBool(asked)))
				return
			}
		}
		e.Res.Stats["probe.c19.startup_failed_with_a_node_down"]++
		return
	}
	if booted != wantBoot {
		w.Violate("c19-boot", "boot-outcome", fmt.Sprintf("%s: proxy start-up succeeded=%v (err %v), expected %v", detail, booted, pi.BootErr, wantBoot))
		return
	}
	if !c19Valid(metaKind, false) {
		for _, r := range recs {
			if r.service == "sni-proxy" {
				w.Violate("c19-auth", "contacted-nodes-after-metadata-rejection", detail+": the SNI proxy was contacted although the metadata service was rejected")
				return
			}
		}
	}
	nConns := len(recs)
	if booted {
		// traffic flows through the authenticated connections
		cl := w.ConnectClient(pi, primitive.ProtocolVersion4)
		st := cl.Send("startup", "", message.NewStartup(), nil)
		w.RunUntil(func() bool { return len(st.Replies) > 0 }, time.Minute)
		tok := w.NewToken()
		r := cl.Send("query", tok, world.QueryMsg("SELECT * FROM ks.t WHERE k = '"+tok+"'", primitive.ConsistencyLevelOne), nil)
		if !w.RunUntil(func() bool { return len(r.Replies) > 0 }, time.Minute) && !w.Stopped() {
			w.Violate("c19-traffic", "request-not-answered", detail+": a request through the authenticated connections got no reply")
			return
		}
		if sniKind == "expires-during-run" {
			// the clock moves past NotAfter; connections made afterwards must be refused
			simrt.Go("noop", func() {})
			w.RunUntil(func() bool { return false }, time.Hour)
			expired = true
			for _, n := range w.Nodes {
				for _, bc := range n.Conns {
					bc.Closed = true
				}
			}
			for _, l := range w.N.Links() {
				if strings.HasPrefix(l.Tag, "svc:"+sniAddr) && !l.IsReset() {
					l.PeerReset()
				}
			}
			w.RunUntil(func() bool { return len(recs) >= nConns+2 }, 2*time.Minute)
			w.RunUntil(func() bool { return false }, 30*time.Second)
			if w.Stopped() || !check() {
				return
			}
			e.Res.Stats["probe.c19.expired_during_run"]++
		}
	}
	if booted && sniKind != "expires-during-run" && c.Choose("swap-chain", 2) == 1 {
		// the nodes behind the SNI proxy start presenting another chain (rotation, a restarted
		// node, another backend): every connection is judged by the chain it was shown, whatever
		// earlier handshakes through the same endpoint were shown
		nConns = len(recs)
		curSniKind = c19Kinds[c.Choose("sni2", len(c19Kinds))]
		if curSniKind == "expires-during-run" {
			curSniKind = "intermediate-missing"
		}
		for _, n := range w.Nodes {
			for _, bc := range n.Conns {
				bc.Closed = true
			}
		}
		for _, l := range w.N.Links() {
			if strings.HasPrefix(l.Tag, "svc:"+sniAddr) && !l.IsReset() {
				l.PeerReset()
			}
		}
		w.RunUntil(func() bool { return len(recs) >= nConns+2 }, 2*time.Minute)
		w.RunUntil(func() bool { return false }, 30*time.Second)
		detail += ", later " + curSniKind
		if w.Stopped() || !check() {
			return
		}
		e.Res.Stats["probe.c19.chain_swapped_to."+curSniKind]++
		if !c19Valid(curSniKind, false) && c.Choose("rotate-back", 2) == 1 {
			// the unacceptable chain stays for a while - every reconnection attempt of every pool and of
			// the control connection is a rejected handshake - and then the genuine chain is back:
			// however many handshakes were rejected before, a valid server is connected to again and
			// requests are served through it
			wait := []time.Duration{20 * time.Second, 2 * time.Minute, 6 * time.Minute}[c.Choose("bad-chain-for", 3)]
			w.RunUntil(func() bool { return false }, wait)
			before := len(recs)
			curSniKind = "valid"
			detail += fmt.Sprintf(", valid again after %v (%d connections so far)", wait, before)
			w.RunUntil(func() bool { return false }, time.Minute)
			if w.Stopped() || !check() {
				return
			}
			cl := w.ConnectClient(pi, primitive.ProtocolVersion4)
			st := cl.Send("startup", "", message.NewStartup(), nil)
			w.RunUntil(func() bool { return len(st.Replies) > 0 }, time.Minute)
			tok := w.NewToken()
			r := cl.Send("query", tok, world.QueryMsg("SELECT * FROM ks.t WHERE k = '"+tok+"'", primitive.ConsistencyLevelOne), nil)
			w.RunUntil(func() bool { return len(r.Replies) > 0 }, time.Minute)
			if w.Stopped() {
				return
			}
			if len(w.Attempts[tok]) == 0 {
				w.Violate("c19-traffic", "valid-server-not-used-after-rejections", fmt.Sprintf("%s: a minute after the genuine chain was back a request reached no node (reply: %v); %d TLS connections were made since", detail, replyMsg(r), len(recs)-before))
				return
			}
			e.Res.Stats["probe.c19.rotated_back_after_rejections"]++
			e.Res.Stats[fmt.Sprintf("probe.c19.rejected_handshakes_before_rotation_back.ge32=%v", before-nConns >= 32)]++
		}
	}
	acc, rej := 0, 0
	for _, r := range recs {
		if r.handshake == nil {
			acc++
		} else {
			rej++
		}
	}
	e.Res.Stats["oracle.c19.tls_connections_checked"] += len(recs)
	e.Res.Stats["probe.c19.accepted"] += acc
	e.Res.Stats["probe.c19.rejected"] += rej
	e.Res.Stats["probe.c19.kind.meta."+metaKind]++
	e.Res.Stats["probe.c19.kind.sni."+sniKind]++
	e.Res.Nontrivial = true
	e.Res.Sample = fmt.Sprintf("%s: booted=%v, %d TLS connections accepted, %d rejected", detail, booted, acc, rej)
	e.Res.Shape = fmt.Sprintf("%s/%s/h%d/%s", metaKind, sniKind, cfg.Hosts, host)
}
