package props

import (
	"crypto/tls"
	"fmt"
	"sort"
	"strings"
	"time"

	"cqlsim/simrt"
	"cqlsim/world"

	"github.com/datastax/cql-proxy/proxycore"
)

func init() { Scenarios["C15"] = c15 }

// c15BehindOneAddress: in some runs every host is reached through one address and told apart by
// its key only (the shape of Astra endpoints: the SNI proxy's address plus the node's host id).
// A host's identity is its Key(), never where it is dialled.
var c15BehindOneAddress bool

type sniLikeEndpoint struct{ addr, id string }

func (e sniLikeEndpoint) String() string         { return e.addr + "/" + e.id }
func (e sniLikeEndpoint) Addr() string           { return e.addr }
func (e sniLikeEndpoint) IsResolved() bool       { return true }
func (e sniLikeEndpoint) TLSConfig() *tls.Config { return nil }
func (e sniLikeEndpoint) Key() string            { return e.addr + "#" + e.id }

func lbHost(i int) *proxycore.Host {
	if c15BehindOneAddress {
		return &proxycore.Host{Endpoint: sniLikeEndpoint{"10.9.0.1:29042", fmt.Sprintf("host-%02d", i+1)}, DC: "dc1"}
	}
	return &proxycore.Host{Endpoint: proxycore.NewEndpoint(fmt.Sprintf("10.0.0.%d:9042", i+1)), DC: "dc1"}
}

// lbModel is the set-based reference: membership after a history of events.
type lbModel struct{ members []string }

func (m *lbModel) has(k string) bool {
	for _, x := range m.members {
		if x == k {
			return true
		}
	}
	return false
}
func (m *lbModel) bootstrap(keys []string) { m.members = append([]string(nil), keys...) }
func (m *lbModel) add(k string)            { m.members = append(m.members, k) }
func (m *lbModel) remove(k string) {
	for i, x := range m.members {
		if x == k {
			m.members = append(append([]string(nil), m.members[:i]...), m.members[i+1:]...)
			return
		}
	}
}
func (m *lbModel) set() string {
	s := append([]string(nil), m.members...)
	sort.Strings(s)
	return strings.Join(s, ",")
}

func drainPlan(p proxycore.QueryPlan, limit int) (keys []string, extraNil bool) {
	for i := 0; i < limit; i++ {
		h := p.Next()
		if h == nil {
			// exhaustion must be sticky
			extraNil = p.Next() == nil
			return keys, extraNil
		}
		keys = append(keys, h.Key())
	}
	return keys, false
}

func setOf(keys []string) (string, bool) {
	s := append([]string(nil), keys...)
	sort.Strings(s)
	dup := false
	for i := 1; i < len(s); i++ {
		if s[i] == s[i-1] {
			dup = true
		}
	}
	return strings.Join(s, ","), dup
}

// lbCheckSequential applies one history sequentially; after every event it creates plans and
// checks them; plans created earlier are kept and consumed later (held across changes).
// It returns "" or a violation description.
func lbCheckSequential(hosts []*proxycore.Host, history []lbEvent, everyStep bool) string {
	lb := proxycore.NewRoundRobinLoadBalancer()
	m := &lbModel{}
	type heldPlan struct {
		p    proxycore.QueryPlan
		want string
		at   int
	}
	var held []heldPlan
	for step, ev := range history {
		switch ev.kind {
		case 0:
			var hs []*proxycore.Host
			var ks []string
			for _, i := range ev.hosts {
				hs = append(hs, hosts[i])
				ks = append(ks, hosts[i].Key())
			}
			lb.OnEvent(&proxycore.BootstrapEvent{Hosts: hs})
			m.bootstrap(ks)
		case 1:
			lb.OnEvent(&proxycore.AddEvent{Host: hosts[ev.hosts[0]]})
			m.add(hosts[ev.hosts[0]].Key())
		case 2:
			lb.OnEvent(&proxycore.RemoveEvent{Host: hosts[ev.hosts[0]]})
			m.remove(hosts[ev.hosts[0]].Key())
		}
		n := len(m.members)
		if !everyStep && step != len(history)-1 {
			held = append(held, heldPlan{lb.NewQueryPlan(), m.set(), step})
			continue
		}
		// 2n+1 consecutive plans: each yields the membership exactly once, starts rotate
		firsts := map[string]int{}
		var prevFirst, prevSecond string
		for k := 0; k < 2*n+1; k++ {
			p := lb.NewQueryPlan()
			keys, sticky := drainPlan(p, n+3)
			got, dup := setOf(keys)
			if dup {
				return fmt.Sprintf("after %s: plan yields a host twice: %v", histString(history[:step+1]), keys)
			}
			if got != m.set() {
				return fmt.Sprintf("after %s: plan yields {%s}, cluster is {%s}", histString(history[:step+1]), got, m.set())
			}
			if !sticky {
				return fmt.Sprintf("after %s: plan did not report exhaustion (or not stickily) after %d hosts", histString(history[:step+1]), len(keys))
			}
			if n > 0 {
				firsts[keys[0]]++
				// consecutive plans start at consecutive hosts: plan k+1 starts where plan k continued
				if k > 0 && n > 1 && keys[0] != prevSecond {
					return fmt.Sprintf("after %s: a plan started at %s and went on to %s, but the next plan started at %s", histString(history[:step+1]), prevFirst, prevSecond, keys[0])
				}
				prevFirst = keys[0]
				if n > 1 {
					prevSecond = keys[1]
				}
			}
		}
		if n > 0 {
			lo, hi := 1<<30, 0
			for _, k := range m.members {
				c := firsts[k]
				if c < lo {
					lo = c
				}
				if c > hi {
					hi = c
				}
			}
			if hi-lo > 1 {
				return fmt.Sprintf("after %s: first-choice counts over %d plans differ by %d: %v", histString(history[:step+1]), 2*n+1, hi-lo, firsts)
			}
		}
		held = append(held, heldPlan{lb.NewQueryPlan(), m.set(), step})
	}
	for _, hp := range held {
		keys, _ := drainPlan(hp.p, 16)
		got, dup := setOf(keys)
		if dup || got != hp.want {
			return fmt.Sprintf("plan created after event %d of %s and consumed at the end yields %v, the cluster at its creation was {%s}", hp.at+1, histString(history), keys, hp.want)
		}
	}
	return ""
}

type lbEvent struct {
	kind  int // 0 bootstrap, 1 add (absent host), 2 remove (present or absent)
	hosts []int
}

func histString(h []lbEvent) string {
	var parts []string
	for _, e := range h {
		parts = append(parts, fmt.Sprintf("%s%v", []string{"bootstrap", "add", "remove"}[e.kind], e.hosts))
	}
	return strings.Join(parts, " ")
}

func init() {
	// (a) exhaustive small scope: sequential, so it runs natively once per worker process,
	// outside any simulation (the sim primitives then behave like the real ones)
	Preludes["C15"] = func(tier string, shard int) *Result {
		nh, ml := 4, 5
		if tier == "thorough" {
			nh, ml = 5, 6
		}
		res := &Result{Prop: "C15", Tier: tier, Stats: map[string]int{}, Prelude: true}
		var v string
		var n int
		func() {
			// a panic of the load balancer is a verdict about it, not a harness failure
			defer func() {
				if r := recover(); r != nil {
					v = fmt.Sprintf("the load balancer panicked during the exhaustive sweep: %v", r)
				}
			}()
			v, n = lbExhaustive(nh, ml, shard)
		}()
		res.Stats["oracle.c15.exhaustive_histories"] = n
		res.Stats[fmt.Sprintf("probe.c15.exhaustive_shard_%d_of_%d", shard%lbShards, lbShards)] = 1
		res.Sample = fmt.Sprintf("exhaustive sweep: every well-formed history over %d hosts up to %d events whose bootstrap subset is in shard %d/%d: %d histories", nh, ml, shard%lbShards, lbShards, n)
		if v != "" {
			res.Violations = []world.Violation{{Oracle: "c15-exhaustive", Signature: "sequential-plan-wrong", Detail: v}}
		}
		return res
	}
}

const lbShards = 8

// lbExhaustive enumerates every well-formed history over nHosts hosts up to maxLen events
// (bootstrap of any subset in index order as the first event, then add of an absent host or
// remove of any host). It runs natively (no simulation: the sweep is sequential).
func lbExhaustive(nHosts, maxLen, shard int) (string, int) {
	hosts := make([]*proxycore.Host, nHosts)
	for i := range hosts {
		hosts[i] = lbHost(i)
	}
	count := 0
	var rec func(hist []lbEvent, present uint) string
	rec = func(hist []lbEvent, present uint) string {
		if len(hist) > 0 {
			count++
			if v := lbCheckSequential(hosts, hist, false); v != "" {
				return v
			}
		}
		if len(hist) == maxLen {
			return ""
		}
		for i := 0; i < nHosts; i++ {
			var ev lbEvent
			np := present
			if present&(1<<i) == 0 {
				ev = lbEvent{1, []int{i}}
				np |= 1 << i
				if v := rec(append(hist[:len(hist):len(hist)], ev), np); v != "" {
					return v
				}
			}
			ev = lbEvent{2, []int{i}}
			if v := rec(append(hist[:len(hist):len(hist)], ev), present&^(1<<i)); v != "" {
				return v
			}
		}
		return ""
	}
	for sub := uint(0); sub < 1<<nHosts; sub++ {
		if int(sub)%lbShards != shard%lbShards {
			continue
		}
		var hs []int
		for i := 0; i < nHosts; i++ {
			if sub&(1<<i) != 0 {
				hs = append(hs, i)
			}
		}
		if v := rec([]lbEvent{{0, hs}}, sub); v != "" {
			return v, count
		}
	}
	return "", count
}

// C15 — query plans visit each live host exactly once, in round-robin rotation.
func c15(e *Env) {
	cfg := swarmWorld(e)
	cfg.Hosts = 0
	cfg.KeepLog = e.Keep
	w := world.New(cfg, e.S, e.N, e.C)
	e.W = w
	c := e.C
	c15BehindOneAddress = c.Choose("c15-hosts-behind-one-address", 3) == 2
	if c15BehindOneAddress {
		e.Res.Stats["probe.c15.hosts_behind_one_address"]++
	}

	// (b) one long random history, sequential, inside the simulation
	nHosts := 2 + c.Choose("lbhosts", 4)
	hosts := make([]*proxycore.Host, nHosts)
	for i := range hosts {
		hosts[i] = lbHost(i)
	}
	var hist []lbEvent
	present := map[int]bool{}
	var boot []int
	for i := 0; i < nHosts; i++ {
		if c.Choose("boot?", 2) == 0 {
			boot = append(boot, i)
			present[i] = true
		}
	}
	hist = append(hist, lbEvent{0, boot})
	for k := 0; k < 10+c.Choose("histlen", 40); k++ {
		i := c.Choose("evhost", nHosts)
		if !present[i] && c.Choose("add?", 3) != 2 {
			hist = append(hist, lbEvent{1, []int{i}})
			present[i] = true
		} else {
			hist = append(hist, lbEvent{2, []int{i}})
			delete(present, i)
		}
	}
	var seqRes string
	seqDone := false
	simrt.Go("lb-sequential", func() {
		seqRes = lbCheckSequential(hosts, hist, true)
		seqDone = true
	})
	w.RunUntil(func() bool { return seqDone }, time.Second)
	if w.Stopped() {
		return
	}
	if seqRes != "" {
		w.Violate("c15-sequential", "sequential-plan-wrong", seqRes)
		return
	}
	w.Stat("oracle.c15.random_histories")

	// (c) concurrent: planner tasks create and consume plans while an event task changes membership
	lb := proxycore.NewRoundRobinLoadBalancer()
	m := &lbModel{}
	var sets []string // membership after k completed events; sets[0] = initial
	evStarted, evDone := 0, 0
	bootDone := false
	var bootKeys []string
	var bootHosts []*proxycore.Host
	for i := 0; i < nHosts; i++ {
		if i == 0 || c.Choose("cboot?", 2) == 0 {
			bootHosts = append(bootHosts, hosts[i])
			bootKeys = append(bootKeys, hosts[i].Key())
		}
	}
	m.bootstrap(bootKeys)
	sets = append(sets, m.set())
	nEvents := 3 + c.Choose("cevents", 10)
	type evp struct {
		add bool
		i   int
	}
	var plan []evp
	pres := map[int]bool{}
	for i, h := range hosts {
		for _, b := range bootHosts {
			if b == h {
				pres[i] = true
			}
		}
	}
	for k := 0; k < nEvents; k++ {
		i := c.Choose("cevhost", nHosts)
		if !pres[i] {
			plan = append(plan, evp{true, i})
			pres[i] = true
		} else {
			plan = append(plan, evp{false, i})
			delete(pres, i)
		}
	}
	simrt.Go("lb-events", func() {
		lb.OnEvent(&proxycore.BootstrapEvent{Hosts: bootHosts})
		bootDone = true
		for _, ev := range plan {
			evStarted++
			if ev.add {
				lb.OnEvent(&proxycore.AddEvent{Host: hosts[ev.i]})
				m.add(hosts[ev.i].Key())
			} else {
				lb.OnEvent(&proxycore.RemoveEvent{Host: hosts[ev.i]})
				m.remove(hosts[ev.i].Key())
			}
			sets = append(sets, m.set())
			evDone++
		}
	})
	type planResult struct {
		keys   []string
		lo, hi int
		boot   bool
	}
	var results []planResult
	nPlanners := 2 + c.Choose("planners", 3)
	finished := 0
	var violation string
	plansChecked := 0
	for t := 0; t < nPlanners; t++ {
		nPlans := 3 + c.Choose("nplans", 10)
		holdSome := c.Choose("hold", 2) == 1
		simrt.Go(fmt.Sprintf("lb-planner%d", t), func() {
			defer func() { finished++ }()
			type created struct {
				p      proxycore.QueryPlan
				lo, hi int
				boot   bool
			}
			var heldPlans []created
			check := func(cr created) {
				keys, _ := drainPlan(cr.p, nHosts+3)
				results = append(results, planResult{keys: keys, lo: cr.lo, hi: cr.hi, boot: cr.boot})
			}
			for k := 0; k < nPlans && violation == ""; k++ {
				lo, b0 := evDone, bootDone
				p := lb.NewQueryPlan()
				cr := created{p: p, lo: lo, hi: evStarted, boot: b0}
				if holdSome && k%2 == 0 {
					heldPlans = append(heldPlans, cr)
				} else {
					check(cr)
				}
			}
			for _, cr := range heldPlans {
				if violation == "" {
					check(cr)
				}
			}
		})
	}
	w.RunUntil(func() bool { return (finished == nPlanners && evDone == nEvents) || violation != "" }, time.Second)
	if w.Stopped() {
		return
	}
	// validate once every event has completed (the membership an in-flight event produces is then known)
	for _, r := range results {
		got, dup := setOf(r.keys)
		plansChecked++
		if dup {
			violation = fmt.Sprintf("concurrent plan yields a host twice: %v", r.keys)
			break
		}
		ok := !r.boot && got == "" // created before the bootstrap was applied: may still see the empty cluster
		if !r.boot {
			r.lo = 0
		}
		for k := r.lo; k <= r.hi && k < len(sets); k++ {
			if sets[k] == got {
				ok = true
			}
		}
		if !ok {
			violation = fmt.Sprintf("plan created while events %d..%d were being applied yields {%s}, which is none of the memberships the cluster had in that window %v", r.lo, r.hi, got, sets[r.lo:min(r.hi+1, len(sets))])
			break
		}
	}
	if violation != "" {
		w.Violate("c15-concurrent", "concurrent-plan-wrong", violation)
		return
	}
	w.StatN("oracle.c15.concurrent_plans_checked", plansChecked)
	e.Res.Nontrivial = true
	e.Res.Sample = fmt.Sprintf("hosts=%d random-history=%s | concurrent: %d planners, %d events, %d plans checked", nHosts, histString(hist[:min(len(hist), 8)]), nPlanners, nEvents, plansChecked)
	e.Res.Shape = fmt.Sprintf("h%d p%d e%d", nHosts, nPlanners, nEvents)
}
