package props

import (
	"os"
	"time"

	"cqlsim/world"

	"github.com/datastax/go-cassandra-native-protocol/message"
	"github.com/datastax/go-cassandra-native-protocol/primitive"
)

func init() { Scenarios["SMOKE"] = smoke }

// boot starts one proxy against the world's nodes and waits until it serves.
func boot(e *Env, cfg world.Config) (*world.World, *world.ProxyInst) {
	cfg.KeepLog = e.Keep
	if os.Getenv("SIM_PROXYLOG") != "" {
		cfg.ProxyLog = true
	}
	if e.StepCap > 0 && e.StepCap < cfg.MaxSteps {
		cfg.MaxSteps = e.StepCap
	}
	w := world.New(cfg, e.S, e.N, e.C)
	e.W = w
	var contact []string
	for _, n := range w.Nodes {
		contact = append(contact, n.Addr)
	}
	pi := w.StartProxy("127.0.0.1:9042", contact, nil)
	w.RunUntil(func() bool { return pi.Booted && (pi.BootErr != nil || pi.Listener != nil) }, 10*time.Minute)
	pi.BootSync()
	return w, pi
}

func smoke(e *Env) {
	cfg := world.DefaultConfig()
	w, pi := boot(e, cfg)
	if pi.BootErr != nil || pi.Listener == nil {
		e.Res.Infra = "proxy did not boot: " + errStr(pi.BootErr)
		return
	}
	c := w.ConnectClient(pi, primitive.ProtocolVersion4)
	st := c.Send("startup", "", message.NewStartup(), nil)
	w.RunUntil(func() bool { return len(st.Replies) > 0 }, time.Minute)
	var reqs []*world.ClientReq
	for i := 0; i < 6; i++ {
		tok := tokenN(i)
		reqs = append(reqs, c.Send("query", tok, &message.Query{Query: "INSERT INTO ks.t (k) VALUES ('" + tok + "')", Options: &message.QueryOptions{Consistency: primitive.ConsistencyLevelOne}}, nil))
	}
	ok := w.RunUntil(func() bool {
		for _, r := range reqs {
			if len(r.Replies) == 0 {
				return false
			}
		}
		return true
	}, time.Minute)
	if !ok && !w.Stopped() {
		w.Violate("smoke", "no-reply", "requests not answered")
	}
	w.RunUntil(func() bool { return false }, 2*time.Minute) // heartbeats
}

func errStr(err error) string {
	if err == nil {
		return "<nil>"
	}
	return err.Error()
}

func tokenN(i int) string {
	return "tok" + itoa(i) + "x"
}

func itoa(i int) string {
	if i == 0 {
		return "0"
	}
	var b [20]byte
	p := len(b)
	for i > 0 {
		p--
		b[p] = byte('0' + i%10)
		i /= 10
	}
	return string(b[p:])
}
