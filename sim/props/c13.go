package props

import (
	"fmt"
	"strings"
	"time"

	"cqlsim/world"

	"github.com/datastax/go-cassandra-native-protocol/frame"
	"github.com/datastax/go-cassandra-native-protocol/message"
	"github.com/datastax/go-cassandra-native-protocol/primitive"
)

func init() { Scenarios["C13"] = c13 }

var knownVersions = []primitive.ProtocolVersion{2, 3, 4, 5, primitive.ProtocolVersionDse1, primitive.ProtocolVersionDse2}

func isKnownVersion(v byte) bool {
	for _, k := range knownVersions {
		if byte(k) == v {
			return true
		}
	}
	return false
}

// C13 — handshake, version negotiation and compression selection are answered locally.
func c13(e *Env) {
	c := e.C
	cfg := swarmWorld(e)
	cfg.WClock = 0
	cfg.Hosts = 1 + c.Choose("hosts", 2)
	cfg.NumConns = 1
	cfg.Heartbeat = 24 * time.Hour // any OPTIONS a backend sees on an established connection is attributable
	cfg.IdleTimeout = 48 * time.Hour
	maxes := []primitive.ProtocolVersion{3, 4, 5, primitive.ProtocolVersionDse1, primitive.ProtocolVersionDse2}
	// systematic over seeds: every maximum is visited
	max := maxes[int(e.Seed%uint64(len(maxes)))]
	if e.C.Choose("maxrand", 4) == 3 {
		max = maxes[c.Choose("max", len(maxes))]
	}
	cfg.ProxyMax = max
	cfg.ProxyVersion = 4
	if max == 3 {
		cfg.ProxyVersion = 3
	}
	if max.IsDse() {
		cfg.DSE = true
		cfg.BackendMax = primitive.ProtocolVersionDse2
	}
	w, pi := boot(e, cfg)
	if pi.BootErr != nil || pi.Listener == nil {
		if !w.Stopped() {
			e.Res.Infra = "proxy did not boot: " + errStr(pi.BootErr)
		}
		return
	}
	w.Quiesce()
	// the canary: a well-behaved second client on another connection, no compression
	canary := w.ConnectClient(pi, cfg.ProxyVersion)
	canary.TolerateGarbage = true // judged by this scenario (canary-received-garbage / canary-cannot-decode)
	cst := canary.Send("startup", "", message.NewStartup(), nil)
	if !w.RunUntil(func() bool { return len(cst.Replies) > 0 }, time.Minute) {
		return
	}
	backendFrames := func() int {
		n := 0
		for _, nd := range w.Nodes {
			for _, bc := range nd.Conns {
				n += bc.Frames
			}
		}
		return n
	}
	_ = backendFrames
	handshakeStats := func() [3]int {
		return [3]int{w.Stats["backend.options_on_started_conn"], w.Stats["backend.second_startup"], w.Stats["backend.register"]}
	}
	base := handshakeStats()
	baseAttempts := len(w.AttemptOrder)
	forwarded := 0
	sentTokens := map[string]bool{}
	checkCanary := func() bool {
		tok := w.NewToken()
		r := canary.Send("query", tok, world.QueryMsg("SELECT * FROM ks.t WHERE k = '"+tok+"'", primitive.ConsistencyLevelOne), nil)
		forwarded++
		sentTokens[tok] = true
		if !w.RunUntil(func() bool { return len(r.Replies) > 0 }, time.Minute) {
			if !w.Stopped() {
				w.Violate("c13-isolation", "canary-not-answered", "the well-behaved client's request got no reply")
			}
			return false
		}
		if len(canary.UndecodableFromProxy) > 0 {
			w.Violate("c13-isolation", "canary-cannot-decode", "the second client received a frame it cannot decode (compression leaked to another connection?): "+canary.UndecodableFromProxy[0])
			return false
		}
		rr, ok := replyMsg(r).(*message.RowsResult)
		if !ok || string(rr.Data[0][0]) != tok {
			w.Violate("c13-isolation", "canary-wrong-answer", fmt.Sprintf("the second client's request %s was answered with %v", tok, replyMsg(r)))
			return false
		}
		return true
	}

	// some runs: no backend is reachable while the clients shake hands (the control connection is
	// lost and cannot be re-established). The handshake is answered by the proxy itself, so it is
	// answered all the same: one frame per frame, promptly. (No data requests in these runs.)
	outage := c.Choose("backend-unreachable-during-handshakes", 4) == 3
	if outage {
		for _, n := range w.Nodes {
			n.Crash()
		}
		w.RunUntil(func() bool { return false }, time.Duration(c.Choose("outage-since", 20))*time.Second)
		if w.Stopped() {
			return
		}
		e.Res.Stats["probe.c13.handshakes_while_no_backend_is_reachable"]++
	}
	nConns := 1 + c.Choose("hconns", 3)
	framesSent := 0
	for k := 0; k < nConns && !w.Stopped(); k++ {
		h := w.ConnectClient(pi, 4)
		h.TolerateGarbage = true // replies to frames of odd versions are judged below
		compression := ""        // model: compression in force on this connection
		var startVer byte        // version of the last successful STARTUP on this connection (0 = none yet)
		seqLen := 2 + c.Choose("seqlen", 11)
		// a third of the connections pipeline: several frames are sent before the answers to the
		// earlier ones are awaited (every frame still gets exactly one answer, on its own stream, in
		// its own version, decided by the frames before it)
		pipelined := c.Choose("pipelined", 3) == 2
		type pend struct {
			req                                            *world.ClientReq
			expect, desc, kind, compName, dataTok, compInF string
			vbyte                                          byte
		}
		var batch []pend
		for i := 0; i < seqLen && !w.Stopped() && h.Connected(); i++ {
			// ---- generate one frame
			var vbyte byte
			switch c.Choose("vkind", 6) {
			case 0, 1:
				vbyte = byte(knownVersions[c.Choose("kv", len(knownVersions))])
			case 2:
				vbyte = byte(max) // boundary: the maximum itself
			case 3:
				vbyte = byte(c.Choose("anyv", 128))
			default:
				vbyte = byte(cfg.ProxyVersion)
			}
			// systematic component: seed and position sweep the version byte
			if c.Choose("sweepv", 8) == 7 {
				vbyte = byte((e.Seed*13 + uint64(i)*7 + uint64(k)) % 128)
			}
			response := c.Choose("dir", 12) == 11
			op := c.Choose("op", 10)
			dataTok := ""
			// (only at a version the backend speaks: v5 below a DSE maximum passes the gate, but no
			// session can be created for it, and the request legitimately fails)
			if !outage && startVer != 0 && w.Nodes[0].Supports(primitive.ProtocolVersion(startVer)) && c.Choose("data?", 5) == 4 {
				// an ordinary request between the handshake frames: it must be served under
				// whatever the successful handshake frames so far have established
				op, vbyte, response = 9, startVer, false
				dataTok = w.NewToken()
			}
			encV := primitive.ProtocolVersion(vbyte)
			known := isKnownVersion(vbyte)
			accepted := known && encV >= 3 && encV <= max
			if !accepted || !known {
				encV = 4 // body is never decoded for such frames; encode as v4 and patch the version byte
			}
			var msg message.Message
			kind := ""
			compName := ""
			switch op {
			case 0, 1:
				msg, kind = &message.Options{}, "options"
			case 2, 3, 4:
				opts := map[string]string{"CQL_VERSION": "3.0.0"}
				switch c.Choose("compopt", 8) {
				case 0:
					compName = "lz4"
				case 1:
					compName = "snappy"
				case 2:
					compName = "LZ4"
				case 3:
					compName = "Snappy"
				case 4:
					compName = "deflate"
				case 5:
					compName = "lz4x"
				}
				if compName != "" {
					opts["COMPRESSION"] = compName
				}
				if c.Choose("extraopt", 3) == 2 {
					opts["DRIVER_NAME"] = "sim"
					opts["NO_COMPACT"] = "true"
				}
				msg, kind = &message.Startup{Options: opts}, "startup"
			case 5:
				msg, kind = &message.Register{EventTypes: []primitive.EventType{primitive.EventTypeSchemaChange, primitive.EventTypeStatusChange}}, "register"
			case 6:
				msg, kind = &message.AuthResponse{Token: []byte("tok")}, "unsupported"
			case 7:
				msg, kind = world.QueryMsg("SELECT * FROM system.local", primitive.ConsistencyLevelOne), "system"
			case 8:
				msg, kind = nil, "badopcode"
			default:
				msg, kind = &message.Options{}, "options"
			}
			if dataTok != "" {
				msg, kind = world.QueryMsg("SELECT * FROM ks.t WHERE k = '"+dataTok+"'", primitive.ConsistencyLevelOne), "data"
				forwarded++
				sentTokens[dataTok] = true
			}
			stream := int16(i + 1)
			var raw []byte
			if msg == nil {
				// an opcode no request may carry (a response opcode or an undefined one)
				bad := []byte{0x00, 0x02, 0x03, 0x06, 0x08, 0x0C, 0x0E, 0x10, 0x11, 0x4F}[c.Choose("badop", 10)]
				raw = []byte{vbyte, 0, byte(stream >> 8), byte(stream), bad, 0, 0, 0, 0}
				if vbyte < 3 && known {
					raw = []byte{vbyte, 0, byte(stream), bad, 0, 0, 0, 0}
				}
			} else {
				fr := frame.NewFrame(encV, stream, msg)
				if compression != "" && kind != "startup" && kind != "options" && accepted && c.Choose("compressit", 2) == 1 {
					fr.SetCompress(true)
				}
				raw = world.EncodeFrame(compression, fr)
				if compression != "" && kind == "options" && accepted && c.Choose("compressed-empty", 2) == 1 {
					// some drivers compress everything once compression is negotiated, heartbeats
					// included: a COMPRESSED frame whose body is the compressed form of nothing
					// (lz4: length prefix 0 and one zero byte; snappy: the single byte 0)
					body := []byte{0}
					if compression == "lz4" {
						body = []byte{0, 0, 0, 0, 0}
					}
					raw = append([]byte{raw[0], raw[1] | 0x01, raw[2], raw[3], raw[4], 0, 0, 0, byte(len(body))}, body...)
					e.Res.Stats["probe.c13.compressed_empty_body"]++
				}
				raw[0] = vbyte
				if vbyte < 3 && known {
					// v2 header has a one-byte stream id: re-pack
					raw = append([]byte{vbyte, raw[1], byte(stream), raw[4]}, raw[5:]...)
				}
			}
			if response {
				raw[0] |= 0x80
			}
			// ---- expectation
			expect := ""
			switch {
			case !known || response || kind == "badopcode":
				expect = "error-or-close"
			case !accepted:
				expect = "version-error"
			case kind == "options":
				expect = "supported"
			case kind == "startup":
				if compName != "" && strings.ToLower(compName) != "lz4" && strings.ToLower(compName) != "snappy" {
					expect = "compression-error"
				} else {
					expect = "ready"
				}
			case kind == "register":
				expect = "ready"
			case kind == "unsupported":
				expect = "unsupported-error"
			case kind == "system":
				expect = "rows"
			case kind == "data":
				expect = "data-rows"
			}
			if expect == "ready" && kind == "startup" && compName != "" {
				// from now on the proxy may compress what it sends on this connection
				h.Compression = strings.ToLower(compName)
			}
			framesSent++
			req := h.SendRaw(stream, kind, "", raw, msg)
			desc := fmt.Sprintf("frame #%d on hostile connection %d: version byte %d%s, %s (max version %s)", i+1, k+1, vbyte&0x7f, map[bool]string{true: " with response bit", false: ""}[response], kind, max)
			batch = append(batch, pend{req: req, expect: expect, desc: desc, kind: kind, compName: compName, dataTok: dataTok, compInF: compression, vbyte: vbyte})
			if expect == "ready" && kind == "startup" {
				// the model of the connection moves on when the frame is sent: the frames after it
				// are generated (and judged) under what this one establishes
				startVer = vbyte
				if compName != "" || compression == "" {
					compression = strings.ToLower(compName)
				}
			}
			// (a forwarded request is answered in the compression of the moment it was sent: no
			// STARTUP may overtake it, so its answer is awaited)
			if pipelined && expect != "error-or-close" && kind != "data" && i < seqLen-1 && len(batch) < 6 && c.Choose("pipeline-more", 3) != 0 {
				e.Res.Stats["probe.c13.frame_sent_before_earlier_answer"]++
				continue
			}
			w.RunUntil(func() bool {
				if !h.Connected() {
					return true
				}
				for _, p := range batch {
					if len(p.req.Replies) == 0 {
						return false
					}
				}
				return true
			}, time.Minute)
			w.Quiesce()
			if w.Stopped() {
				return
			}
			if len(h.UndecodableFromProxy) > 0 {
				w.Violate("c13-reply", "undecodable-reply", desc+": the proxy answered with bytes the reference codec cannot decode: "+h.UndecodableFromProxy[0])
				return
			}
			if len(h.Unsolicited) > 0 {
				// client.OnData already raised the violation (more than one frame for one request)
				return
			}
			lastClosing := batch[len(batch)-1].expect == "error-or-close"
			for bi, p := range batch {
				req, expect, desc, kind, compName, dataTok, vbyte := p.req, p.expect, p.desc, p.kind, p.compName, p.dataTok, p.vbyte
				compression := p.compInF
				rm := replyMsg(req)
				// (a connection closed by the last frame of a batch says nothing about the earlier ones)
				closed := !h.Connected() && (bi == len(batch)-1 || !lastClosing)
				if rm != nil && expect != "error-or-close" && expect != "version-error" && req.Replies[0].Frame.Header.Version != primitive.ProtocolVersion(vbyte) {
					w.Violate("c13-reply", "response-in-another-protocol-version", fmt.Sprintf("%s: the answer's header says %s", desc, req.Replies[0].Frame.Header.Version))
					return
				}
				if rm == nil && lastClosing && bi < len(batch)-1 && !h.Connected() {
					// the connection was closed on the offending last frame before the answer to this
					// earlier one was written: a closed connection owes nothing more
					e.Res.Stats["probe.c13.answer_lost_to_close_on_later_frame"]++
					continue
				}
				switch expect {
				case "error-or-close":
					if rm != nil {
						if pe, ok := rm.(*message.ProtocolError); !ok {
							w.Violate("c13-reply", "bad-frame-wrong-reply", fmt.Sprintf("%s: expected a protocol error or a closed connection, got %v", desc, rm))
							return
						} else {
							_ = pe
						}
					} else if !closed {
						w.Violate("c13-reply", "bad-frame-ignored", desc+": neither an error nor a closed connection")
						return
					}
					e.Res.Stats["probe.c13.bad_version_or_direction"]++
				case "version-error":
					pe, ok := rm.(*message.ProtocolError)
					if !ok {
						w.Violate("c13-gate", "version-gate-no-protocol-error", fmt.Sprintf("%s: expected a protocol error naming the version, got %v (connection closed=%v)", desc, rm, closed))
						return
					}
					if !strings.Contains(pe.ErrorMessage, fmt.Sprint(int(vbyte&0x7f))) {
						w.Violate("c13-gate", "version-error-does-not-name-version", fmt.Sprintf("%s: error text %q does not contain the version number", desc, pe.ErrorMessage))
						return
					}
					if closed {
						w.Violate("c13-gate", "version-gate-closed-connection", desc+": the connection was closed instead of staying usable")
						return
					}
					e.Res.Stats["probe.c13.version_gated"]++
				case "supported":
					if _, ok := rm.(*message.Supported); !ok {
						w.Violate("c13-reply", "options-wrong-reply", fmt.Sprintf("%s: expected SUPPORTED, got %v (closed=%v)", desc, rm, closed))
						return
					}
				case "ready":
					if _, ok := rm.(*message.Ready); !ok {
						w.Violate("c13-reply", kind+"-wrong-reply", fmt.Sprintf("%s: expected READY, got %v (closed=%v)", desc, rm, closed))
						return
					}
					if kind == "startup" && compName != "" {
						e.Res.Stats["probe.c13.compression_negotiated"]++
					}
				case "compression-error":
					if _, ok := rm.(message.Error); !ok {
						w.Violate("c13-compression", "unsupported-compression-no-error", fmt.Sprintf("%s: STARTUP with COMPRESSION=%s expected an ERROR, got %v", desc, compName, rm))
						return
					}
					e.Res.Stats["probe.c13.unsupported_compression"]++
				case "unsupported-error":
					if _, ok := rm.(message.Error); !ok {
						w.Violate("c13-reply", "unsupported-opcode-wrong-reply", fmt.Sprintf("%s: expected an ERROR, got %v (closed=%v)", desc, rm, closed))
						return
					}
				case "data-rows":
					rr, ok := rm.(*message.RowsResult)
					if !ok || len(rr.Data) != 1 || string(rr.Data[0][0]) != dataTok {
						w.Violate("c13-data", "request-after-handshake-not-served", fmt.Sprintf("%s: an ordinary request sent after the successful STARTUP on this connection (compression in force %q) expected its row, got %v (closed=%v)", desc, compression, rm, closed))
						return
					}
					e.Res.Stats["probe.c13.data_request_between_handshake_frames"]++
				case "rows":
					if _, ok := rm.(*message.RowsResult); !ok {
						w.Violate("c13-reply", "system-query-wrong-reply", fmt.Sprintf("%s: expected ROWS, got %v (closed=%v)", desc, rm, closed))
						return
					}
				}
			}
			batch = batch[:0]
			// exactly one frame: nothing else may trail the answer (e.g. READY after an ERROR)
			w.RunUntil(func() bool { return false }, time.Second)
			if w.Stopped() {
				return
			}
			if len(h.Unsolicited) > 0 {
				return
			}
			if h.Connected() && c.Choose("idle-gap?", 6) == 5 {
				// the client says nothing for a while (seconds to minutes - beyond every time-out the
				// proxy is configured with): whatever order of handshake frames came before, a
				// connection that was usable stays usable, and nothing arrives on it unasked
				gap := []time.Duration{3 * time.Second, 11 * time.Second, 35 * time.Second, 2 * time.Minute}[c.Choose("idle-gap", 4)]
				w.RunUntil(func() bool { return false }, gap)
				if w.Stopped() {
					return
				}
				if !h.Connected() {
					w.Violate("c13-idle", "idle-connection-closed", fmt.Sprintf("hostile connection %d was open after frame #%d (%s) and was closed by the proxy while the client said nothing for %v", k, i, desc, gap))
					return
				}
				if len(h.Unsolicited) > 0 {
					return
				}
				e.Res.Stats["probe.c13.client_idle_between_handshake_frames"]++
			}
			if !outage && c.Choose("canary?", 3) == 0 && !checkCanary() {
				return
			}
		}
		if h.Connected() {
			h.Disconnect()
		}
	}
	if !outage && !checkCanary() {
		return
	}
	w.Quiesce()
	// nothing but the canary's data requests reached a backend
	now := handshakeStats()
	if now[0] != base[0] || now[1] != base[1] || now[2] != base[2] || len(w.UnexpectedAtBackend) > 0 {
		w.Violate("c13-forward", "handshake-frame-forwarded", fmt.Sprintf("since the proxy finished booting, backends received %d OPTIONS on established connections (heartbeats are off), %d second STARTUPs, %d REGISTERs and %v: a handshake frame of a client was forwarded", now[0]-base[0], now[1]-base[1], now[2]-base[2], w.UnexpectedAtBackend))
		return
	}
	for _, a := range w.AttemptOrder[baseAttempts:] {
		if !sentTokens[a.Token] {
			w.Violate("c13-forward", "handshake-frame-forwarded", fmt.Sprintf("backend %s received a %s request (token %q) that no client sent as a data request", a.Conn, a.OpCode, a.Token))
			return
		}
	}
	e.Res.Stats["oracle.c13.frames_checked"] += framesSent
	e.Res.Nontrivial = true
	e.Res.Sample = fmt.Sprintf("max=%s hostile-connections=%d frames=%d canary-requests=%d", max, nConns, framesSent, forwarded)
	e.Res.Shape = fmt.Sprintf("max%d k%d f%d", max, nConns, framesSent)
}
