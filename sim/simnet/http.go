package simnet

import (
	"bufio"
	"bytes"
	"crypto/tls"
	"fmt"
	"io"
	"net"
	"net/http"
	"strconv"
	"sync"

	"cqlsim/simrt"
)

// The standard library's HTTP plumbing runs its own goroutines (a read loop, a write loop and a
// dialer per client connection; a goroutine and a background reader per server connection) that
// talk to each other over channels the simulation does not see. Which of them runs first is then
// the Go scheduler's decision, not the run's seed. The two stand-ins below do the same work on
// the calling task (client) or on one sim task per connection (server); the SUT's own code - its
// TLS configuration and verification callbacks, its handlers - is what runs inside them.

// SyncTransport replaces an *http.Transport by a round tripper that dials, shakes hands (with the
// transport's own TLSClientConfig), writes the request and reads the whole response on the
// calling goroutine. Anything else is returned unchanged.
func SyncTransport(rt http.RoundTripper) http.RoundTripper {
	if t, ok := rt.(*http.Transport); ok && cur.Load() != nil {
		return &syncTransport{t: t}
	}
	return rt
}

type syncTransport struct{ t *http.Transport }

func (s *syncTransport) RoundTrip(req *http.Request) (*http.Response, error) {
	host := req.URL.Host
	if _, _, err := net.SplitHostPort(host); err != nil {
		if req.URL.Scheme == "https" {
			host = net.JoinHostPort(host, "443")
		} else {
			host = net.JoinHostPort(host, "80")
		}
	}
	conn, err := DialContext(req.Context(), "tcp", host)
	if err != nil {
		return nil, err
	}
	var rw net.Conn = conn
	if req.URL.Scheme == "https" {
		cfg := &tls.Config{}
		if s.t.TLSClientConfig != nil {
			cfg = s.t.TLSClientConfig.Clone()
		}
		if cfg.ServerName == "" {
			cfg.ServerName = req.URL.Hostname()
		}
		tc := tls.Client(conn, cfg)
		if err := tc.HandshakeContext(req.Context()); err != nil {
			conn.Close()
			return nil, err
		}
		rw = tc
	}
	if err := req.Write(rw); err != nil {
		rw.Close()
		return nil, err
	}
	resp, err := http.ReadResponse(bufio.NewReader(rw), req)
	if err != nil {
		rw.Close()
		return nil, err
	}
	body, err := io.ReadAll(resp.Body)
	resp.Body.Close()
	rw.Close()
	if err != nil {
		return nil, err
	}
	resp.Body = io.NopCloser(bytes.NewReader(body))
	return resp, nil
}

var (
	httpMu        sync.Mutex
	httpListeners = map[*http.Server][]net.Listener{}
	httpClosed    = map[*http.Server]bool{} // Close came before Serve (net/http: Serve then returns ErrServerClosed at once)
)

// resetHTTP forgets the servers of earlier runs.
func resetHTTP() {
	httpMu.Lock()
	httpListeners = map[*http.Server][]net.Listener{}
	httpClosed = map[*http.Server]bool{}
	httpMu.Unlock()
}

// HTTPServe is (*http.Server).Serve with one sim task per connection: read one request, run the
// server's handler, write the response, close.
func HTTPServe(srv *http.Server, l net.Listener) error {
	if cur.Load() == nil {
		return srv.Serve(l)
	}
	httpMu.Lock()
	if httpClosed[srv] {
		httpMu.Unlock()
		l.Close()
		return http.ErrServerClosed
	}
	httpListeners[srv] = append(httpListeners[srv], l)
	httpMu.Unlock()
	for {
		c, err := l.Accept()
		if err != nil {
			return http.ErrServerClosed
		}
		simrt.Go("http-conn", func() { serveHTTPConn(srv, c) })
	}
}

// HTTPClose is (*http.Server).Close for servers started by HTTPServe.
func HTTPClose(srv *http.Server) error {
	httpMu.Lock()
	ls := httpListeners[srv]
	delete(httpListeners, srv)
	if cur.Load() != nil {
		httpClosed[srv] = true
	}
	httpMu.Unlock()
	if ls == nil {
		return srv.Close()
	}
	for _, l := range ls {
		l.Close()
	}
	return nil
}

type httpRecorder struct {
	h    http.Header
	code int
	body bytes.Buffer
}

func (r *httpRecorder) Header() http.Header { return r.h }
func (r *httpRecorder) WriteHeader(c int) {
	if r.code == 0 {
		r.code = c
	}
}
func (r *httpRecorder) Write(b []byte) (int, error) {
	if r.code == 0 {
		r.code = http.StatusOK
	}
	return r.body.Write(b)
}

func serveHTTPConn(srv *http.Server, c net.Conn) {
	defer c.Close()
	req, err := http.ReadRequest(bufio.NewReader(c))
	if err != nil {
		return
	}
	req.RemoteAddr = c.RemoteAddr().String()
	rec := &httpRecorder{h: http.Header{}}
	h := srv.Handler
	if h == nil {
		h = http.DefaultServeMux
	}
	h.ServeHTTP(rec, req)
	if rec.code == 0 {
		rec.code = http.StatusOK
	}
	var out bytes.Buffer
	fmt.Fprintf(&out, "HTTP/1.1 %d %s\r\n", rec.code, http.StatusText(rec.code))
	rec.h.Set("Content-Length", strconv.Itoa(rec.body.Len()))
	rec.h.Set("Connection", "close")
	if rec.h.Get("Content-Type") == "" && rec.body.Len() > 0 {
		rec.h.Set("Content-Type", http.DetectContentType(rec.body.Bytes()))
	}
	_ = rec.h.Write(&out)
	out.WriteString("\r\n")
	out.Write(rec.body.Bytes())
	_, _ = c.Write(out.Bytes())
}
