package simnet

import (
	"io"
	"net"
	"time"

	"cqlsim/simrt"
)

// PeerEnd is the harness side of a link as a net.Conn, for peers that need a blocking
// byte stream (TLS servers run as sim tasks). The scheduler delivers bytes through OnData.
type PeerEnd struct {
	L      *Link
	buf    []byte
	closed bool
	q      simrt.WaitQ
	Bytes  int64 // bytes received from the SUT
}

//go:norace
func (p *PeerEnd) OnData(l *Link, b []byte) {
	p.L = l
	p.buf = append(p.buf, b...)
	p.Bytes += int64(len(b))
	p.q.WakeAll()
}

//go:norace
func (p *PeerEnd) OnClose(l *Link) {
	p.closed = true
	p.q.WakeAll()
}

//go:norace
func (p *PeerEnd) Read(b []byte) (int, error) {
	for {
		if len(p.buf) > 0 {
			n := copy(b, p.buf)
			p.buf = p.buf[n:]
			return n, nil
		}
		if p.closed || (p.L != nil && p.L.reset) {
			return 0, io.EOF
		}
		if !simrt.Active() || simrt.Exiting() {
			return 0, io.EOF
		}
		simrt.Block(&p.q, p, "peer.Read")
	}
}

//go:norace
func (p *PeerEnd) Write(b []byte) (int, error) {
	if p.L == nil || p.L.reset || p.L.sutClosed {
		return 0, io.ErrClosedPipe
	}
	p.L.PeerWrite(b)
	return len(b), nil
}

//go:norace
func (p *PeerEnd) Close() error {
	if p.L != nil {
		p.L.PeerClose()
	}
	return nil
}

func (p *PeerEnd) LocalAddr() net.Addr                { return &net.TCPAddr{IP: net.ParseIP("10.9.0.1"), Port: 1} }
func (p *PeerEnd) RemoteAddr() net.Addr               { return &net.TCPAddr{IP: net.ParseIP("127.0.0.1"), Port: 2} }
func (p *PeerEnd) SetDeadline(t time.Time) error      { return nil }
func (p *PeerEnd) SetReadDeadline(t time.Time) error  { return nil }
func (p *PeerEnd) SetWriteDeadline(t time.Time) error { return nil }
