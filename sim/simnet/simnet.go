// Package simnet is the simulated network: every TCP connection of the SUT is a Link whose
// two byte streams are delivered by the scheduler (DESIGN.md §3.5). The SUT side of a link is
// a net.Conn used by SUT tasks; the other side is a Peer, an inline state machine that the
// scheduler goroutine calls when it decides to deliver bytes.
//
// Shared state is touched by the running task or by the scheduler, never both at once
// (single-runner discipline), so no locking is needed; functions are //go:norace and avoid Go
// maps so that the -race build sees neither accesses nor edges from the simulator.
package simnet

import (
	"context"
	"crypto/tls"
	"errors"
	"fmt"
	"io"
	"net"
	"os"
	"strconv"
	"sync/atomic"
	"syscall"
	"time"
	"unsafe"

	"cqlsim/simrt"

	"go.uber.org/zap"
)

// Peer is the harness side of a link. Its methods are called by the scheduler goroutine.
type Peer interface {
	// OnData receives bytes the SUT wrote (in order, arbitrary chunking).
	OnData(l *Link, b []byte)
	// OnClose is called once when the SUT side has closed and all its bytes were delivered.
	OnClose(l *Link)
}

// DialOutcome is the world's answer to a SUT dial.
type DialOutcome struct {
	Kind DialKind
	Peer Peer   // for DialAccept
	Tag  string // free-form label recorded on the link (e.g. node name)
}

type DialKind int

const (
	DialAccept DialKind = iota
	DialRefuse
	DialBlackhole
	DialReset // connection accepted and immediately reset (EOF on first read)
)

type Net struct {
	// Lookup resolves host names (nil: only IP literals resolve).
	Lookup func(host string) ([]string, error)
	// LoggerHook, if set, provides the zap logger for proxy.Run.
	LoggerHook func(kind string) (*zap.Logger, error)

	links     []*Link
	dials     []*PendingDial
	listeners []*Listener
	nextLink  int
	nextPort  int

	Stats Stats
}

type Stats struct {
	Dials, DialRefused, DialBlackholed int
	BytesToSUT, BytesToPeer            int64
	Deliveries, Fragments              int
	Resets, Closes                     int
	BlockedWrites                      int
}

var cur atomic.Pointer[Net]

func Install(n *Net) {
	if !cur.CompareAndSwap(nil, n) {
		panic("simnet: a network is already installed")
	}
	resetHTTP()
}
func Uninstall(n *Net)        { cur.CompareAndSwap(n, nil) }
func Current() *Net           { return cur.Load() }
func New() *Net               { return &Net{nextPort: 40000} }
func (n *Net) Links() []*Link { return n.links }

// Link is one simulated TCP connection between the SUT and a harness peer.
type Link struct {
	ID     int
	Tag    string
	Local  *net.TCPAddr // SUT side address
	Remote *net.TCPAddr // peer side address
	Dialed bool         // true: the SUT dialled; false: the harness connected to a SUT listener
	Peer   Peer
	Conn   *Conn
	net    *Net

	toSUT     []byte // written by the peer, not yet delivered
	toSUTEOF  bool   // FIN queued behind toSUT
	toPeer    []byte // written by the SUT, not yet delivered
	sutClosed bool   // SUT closed its side
	peerGone  bool   // peer was told about the close
	reset     bool   // RST: both directions dead
	Stalled   bool   // no delivery while set (fault)
	NoRead    bool   // the peer has stopped reading: nothing is delivered to it, and once SndBuf bytes wait the SUT's writes block
	SndBuf    int    // bytes the SUT can write ahead of a peer that does not read (0 = unlimited)
	User      interface{}
	ioSync    int   // address used for race-detector release/acquire
	written   int64 // bytes the peer wrote towards the SUT
	consumed  int64 // bytes the SUT actually read
}

// Conn is the SUT-side endpoint (a net.Conn).
type Conn struct {
	l        *Link
	rbuf     []byte
	eof      bool
	closed   bool
	rq       simrt.WaitQ
	wq       simrt.WaitQ // writers blocked on a full send buffer
	rdl      time.Time
	rdlTimer *time.Timer
	wdl      time.Time
	wdlTimer *time.Timer
	blocked  bool
}

// ---------------------------------------------------------------- SUT-facing API

func timeoutErr(op, addr string) error {
	return &net.OpError{Op: op, Net: "tcp", Addr: strAddr(addr), Err: os.ErrDeadlineExceeded}
}

type strAddr string

func (s strAddr) Network() string { return "tcp" }
func (s strAddr) String() string  { return string(s) }

func parseTCP(addr string) *net.TCPAddr {
	host, port, err := net.SplitHostPort(addr)
	if err != nil {
		return &net.TCPAddr{IP: net.ParseIP("127.0.0.1"), Port: 0}
	}
	p, _ := strconv.Atoi(port)
	ip := net.ParseIP(host)
	if ip == nil {
		ip = net.ParseIP("127.0.0.1")
	}
	return &net.TCPAddr{IP: ip, Port: p}
}

// DialContext is what instrumented SUT code calls instead of (*net.Dialer).DialContext.
func DialContext(ctx context.Context, network, addr string) (net.Conn, error) {
	return DialContextWith(nil, ctx, network, addr)
}

// PendingDial is a SUT dial waiting for the scheduler's decision.
type PendingDial struct {
	Addr       string
	Blackholed bool // the world decided never to answer; only the context can end it
	ctxDone    bool
	resolved   bool
	outcome    DialOutcome
	link       *Link
	q          simrt.WaitQ
}

//go:norace
func (d *PendingDial) cancelled() {
	d.ctxDone = true
	d.q.WakeAll()
}

//go:norace
func DialContextWith(_ interface{}, ctx context.Context, network, addr string) (net.Conn, error) {
	n := cur.Load()
	if n == nil {
		var d net.Dialer
		return d.DialContext(ctx, network, addr)
	}
	simrt.YieldOp("dial")
	if err := ctx.Err(); err != nil {
		return nil, &net.OpError{Op: "dial", Net: network, Addr: strAddr(addr), Err: err}
	}
	n.Stats.Dials++
	d := &PendingDial{Addr: addr}
	n.dials = append(n.dials, d)
	stop := context.AfterFunc(ctx, d.cancelled)
	for !d.resolved && !d.ctxDone {
		if simrt.Exiting() {
			break
		}
		simrt.Block(&d.q, d, "dial")
	}
	stop()
	for i, x := range n.dials {
		if x == d {
			n.dials = append(n.dials[:i], n.dials[i+1:]...)
			break
		}
	}
	if !d.resolved {
		if errors.Is(ctx.Err(), context.DeadlineExceeded) {
			return nil, timeoutErr("dial", addr)
		}
		err := ctx.Err()
		if err == nil {
			err = errClosed
		}
		return nil, &net.OpError{Op: "dial", Net: network, Addr: strAddr(addr), Err: err}
	}
	switch d.outcome.Kind {
	case DialRefuse:
		n.Stats.DialRefused++
		return nil, &net.OpError{Op: "dial", Net: network, Addr: strAddr(addr),
			Err: os.NewSyscallError("connect", syscall.ECONNREFUSED)}
	}
	return d.link.Conn, nil
}

// PendingDials lists the dials awaiting a decision (scheduler goroutine).
//
//go:norace
func (n *Net) PendingDials() []*PendingDial {
	var out []*PendingDial
	for _, d := range n.dials {
		if !d.resolved && !d.ctxDone && !d.Blackholed {
			out = append(out, d)
		}
	}
	return out
}

// ResolveDial completes a pending dial with the given outcome (scheduler goroutine). For
// DialAccept/DialReset it returns the new link.
//
//go:norace
func (n *Net) ResolveDial(d *PendingDial, out DialOutcome) *Link {
	if d.resolved || d.ctxDone {
		return nil
	}
	if out.Kind == DialBlackhole {
		d.Blackholed = true
		n.Stats.DialBlackholed++
		return nil
	}
	d.outcome = out
	if out.Kind == DialAccept || out.Kind == DialReset {
		n.nextPort++
		l := n.newLink(&net.TCPAddr{IP: net.ParseIP("127.0.0.1"), Port: n.nextPort}, parseTCP(d.Addr), out.Peer, out.Tag)
		l.Dialed = true
		if out.Kind == DialReset {
			l.toSUTEOF = true
		}
		d.link = l
	}
	d.resolved = true
	d.q.WakeAll()
	return d.link
}

//go:norace
func (n *Net) newLink(local, remote *net.TCPAddr, p Peer, tag string) *Link {
	n.nextLink++
	l := &Link{ID: n.nextLink, Tag: tag, Local: local, Remote: remote, Peer: p, net: n}
	l.Conn = &Conn{l: l}
	n.links = append(n.links, l)
	return l
}

func LookupHost(host string) ([]string, error) {
	n := cur.Load()
	if n == nil {
		return net.LookupHost(host)
	}
	if ip := net.ParseIP(host); ip != nil {
		return []string{host}, nil
	}
	if n.Lookup != nil {
		return n.Lookup(host)
	}
	return nil, &net.DNSError{Err: "no such host", Name: host, IsNotFound: true}
}

func LookupHostWith(_ interface{}, ctx context.Context, host string) ([]string, error) {
	if cur.Load() == nil {
		var r net.Resolver
		return r.LookupHost(ctx, host)
	}
	return LookupHost(host)
}

func NewZapLogger(kind string) (*zap.Logger, error) {
	if n := cur.Load(); n != nil && n.LoggerHook != nil {
		return n.LoggerHook(kind)
	}
	if kind == "NewDevelopment" {
		return zap.NewDevelopment()
	}
	return zap.NewProduction()
}

// ---------------------------------------------------------------- Conn (SUT side)

var errClosed = net.ErrClosed

//go:norace
func (c *Conn) Read(b []byte) (int, error) {
	simrt.Touch()
	if len(b) == 0 {
		return 0, nil
	}
	for {
		if c.closed {
			return 0, &net.OpError{Op: "read", Net: "tcp", Err: errClosed}
		}
		if c.l.reset {
			return 0, &net.OpError{Op: "read", Net: "tcp", Err: os.NewSyscallError("read", syscall.ECONNRESET)}
		}
		if len(c.rbuf) > 0 {
			n := copy(b, c.rbuf)
			c.l.consumed += int64(n)
			c.rbuf = c.rbuf[n:]
			if len(c.rbuf) == 0 {
				c.rbuf = nil
			}
			simrt.RaceAcquire(unsafe.Pointer(&c.l.ioSync))
			return n, nil
		}
		if c.eof {
			return 0, io.EOF
		}
		if !simrt.Active() || simrt.Exiting() {
			return 0, &net.OpError{Op: "read", Net: "tcp", Err: errClosed}
		}
		if !c.rdl.IsZero() && !time.Now().Before(c.rdl) {
			return 0, &net.OpError{Op: "read", Net: "tcp", Err: os.ErrDeadlineExceeded}
		}
		simrt.Block(&c.rq, c, "net.Read")
	}
}

//go:norace
func (c *Conn) Write(b []byte) (int, error) {
	simrt.Touch()
	written := 0
	for {
		if c.closed {
			return written, &net.OpError{Op: "write", Net: "tcp", Err: errClosed}
		}
		if c.l.reset {
			return written, &net.OpError{Op: "write", Net: "tcp", Err: os.NewSyscallError("write", syscall.ECONNRESET)}
		}
		if c.l.peerGone {
			return written, &net.OpError{Op: "write", Net: "tcp", Err: os.NewSyscallError("write", syscall.EPIPE)}
		}
		// a peer that does not read leaves room for SndBuf bytes: what fits is taken (a partial
		// write, as a socket does), the rest waits until the peer reads again, the write deadline
		// passes, the connection is reset, or this side closes it
		n := len(b) - written
		if c.l.NoRead && c.l.SndBuf > 0 && simrt.Active() && !simrt.Exiting() {
			if room := c.l.SndBuf - len(c.l.toPeer); room < n {
				n = room
				if n < 0 {
					n = 0
				}
			}
		}
		if n > 0 {
			simrt.RaceReleaseMerge(unsafe.Pointer(&c.l.ioSync))
			c.l.toPeer = append(c.l.toPeer, b[written:written+n]...)
			written += n
		}
		if written == len(b) {
			return written, nil
		}
		if !c.wdl.IsZero() && !time.Now().Before(c.wdl) {
			return written, &net.OpError{Op: "write", Net: "tcp", Err: os.ErrDeadlineExceeded}
		}
		c.l.net.Stats.BlockedWrites++
		simrt.Block(&c.wq, c, "net.Write")
	}
}

//go:norace
func (c *Conn) Close() error {
	simrt.Touch()
	if c.closed {
		return &net.OpError{Op: "close", Net: "tcp", Err: errClosed}
	}
	c.closed = true
	c.l.sutClosed = true
	c.l.net.Stats.Closes++
	c.rq.WakeAll()
	c.wq.WakeAll()
	return nil
}

func (c *Conn) LocalAddr() net.Addr  { return c.l.Local }
func (c *Conn) RemoteAddr() net.Addr { return c.l.Remote }

//go:norace
func (c *Conn) SetDeadline(t time.Time) error {
	_ = c.SetWriteDeadline(t)
	return c.SetReadDeadline(t)
}

// SetReadDeadline: a reader that is blocked re-checks the deadline now (a deadline in the past is
// how net/http aborts its background read) and again when the deadline arrives.
//
//go:norace
func (c *Conn) SetReadDeadline(t time.Time) error {
	simrt.Touch()
	c.rdl = t
	if c.rdlTimer != nil {
		c.rdlTimer.Stop()
		c.rdlTimer = nil
	}
	if t.IsZero() {
		return nil
	}
	if d := time.Until(t); d > 0 {
		c.rdlTimer = time.AfterFunc(d, func() { c.rq.WakeAll() })
	} else {
		c.rq.WakeAll()
	}
	return nil
}
func (c *Conn) SetWriteDeadline(t time.Time) error {
	simrt.Touch()
	c.wdl = t
	if c.wdlTimer != nil {
		c.wdlTimer.Stop()
		c.wdlTimer = nil
	}
	if t.IsZero() {
		return nil
	}
	if d := time.Until(t); d > 0 {
		c.wdlTimer = time.AfterFunc(d, func() { c.wq.WakeAll() })
	} else {
		c.wq.WakeAll()
	}
	return nil
}
func (c *Conn) Link() *Link                        { return c.l }

// ---------------------------------------------------------------- Listener (SUT side)

type Listener struct {
	net     *Net
	addr    *net.TCPAddr
	backlog []*Link
	closed  bool
	q       simrt.WaitQ
	TLS     *tls.Config
	serving bool // Accept has been called at least once
}

// Serving reports whether somebody has started accepting on the listener (a bound address alone
// serves nobody).
//
//go:norace
func (l *Listener) Serving() bool { return l.serving && !l.closed }

//go:norace
func Listen(network, addr string) (net.Listener, error) {
	n := cur.Load()
	if n == nil {
		return net.Listen(network, addr)
	}
	ta := parseTCP(addr)
	if ta.Port == 0 {
		n.nextPort++
		ta.Port = n.nextPort
	}
	for _, l := range n.listeners {
		if !l.closed && l.addr.Port == ta.Port && l.addr.IP.Equal(ta.IP) {
			return nil, &net.OpError{Op: "listen", Net: network, Addr: ta, Err: os.NewSyscallError("bind", syscall.EADDRINUSE)}
		}
	}
	l := &Listener{net: n, addr: ta}
	n.listeners = append(n.listeners, l)
	return l, nil
}

func TLSListen(network, addr string, cfg *tls.Config) (net.Listener, error) {
	if cur.Load() == nil {
		return tls.Listen(network, addr, cfg)
	}
	l, err := Listen(network, addr)
	if err != nil {
		return nil, err
	}
	l.(*Listener).TLS = cfg
	return tls.NewListener(l, cfg), nil
}

//go:norace
func (l *Listener) Accept() (net.Conn, error) {
	simrt.Touch()
	l.serving = true
	simrt.YieldOp("accept")
	for {
		if l.closed {
			return nil, &net.OpError{Op: "accept", Net: "tcp", Addr: l.addr, Err: errClosed}
		}
		if len(l.backlog) > 0 {
			k := l.backlog[0]
			l.backlog = l.backlog[1:]
			return k.Conn, nil
		}
		if !simrt.Active() || simrt.Exiting() {
			return nil, &net.OpError{Op: "accept", Net: "tcp", Addr: l.addr, Err: errClosed}
		}
		simrt.Block(&l.q, l, "net.Accept")
	}
}

//go:norace
func (l *Listener) Close() error {
	if l.closed {
		return &net.OpError{Op: "close", Net: "tcp", Addr: l.addr, Err: errClosed}
	}
	l.closed = true
	l.q.WakeAll()
	return nil
}

func (l *Listener) Addr() net.Addr { return l.addr }

// ---------------------------------------------------------------- harness-facing API (scheduler goroutine)

// Listeners returns the SUT's open listeners.
//
//go:norace
func (n *Net) Listeners() []*Listener {
	var out []*Listener
	for _, l := range n.listeners {
		if !l.closed {
			out = append(out, l)
		}
	}
	return out
}

//go:norace
func (l *Listener) Closed() bool { return l.closed }

// Connect opens a connection from a harness peer to a SUT listener.
//
//go:norace
func (n *Net) Connect(l *Listener, p Peer, from *net.TCPAddr, tag string) (*Link, error) {
	if l.closed {
		return nil, fmt.Errorf("connection refused")
	}
	if from == nil {
		n.nextPort++
		from = &net.TCPAddr{IP: net.ParseIP("127.0.0.1"), Port: n.nextPort}
	}
	k := n.newLink(l.addr, from, p, tag)
	l.backlog = append(l.backlog, k)
	l.q.WakeAll()
	return k, nil
}

// ConnectLocal is Connect for a listener bound to the wildcard address: the accepted connection's
// local address is the address the peer dialled (local), not the listener's.
//
//go:norace
func (n *Net) ConnectLocal(l *Listener, p Peer, local *net.TCPAddr, tag string) (*Link, error) {
	if l.closed {
		return nil, fmt.Errorf("connection refused")
	}
	n.nextPort++
	from := &net.TCPAddr{IP: net.ParseIP("127.0.0.1"), Port: n.nextPort}
	k := n.newLink(local, from, p, tag)
	l.backlog = append(l.backlog, k)
	l.q.WakeAll()
	return k, nil
}

// PeerWrite queues bytes from the peer towards the SUT.
//
//go:norace
func (l *Link) PeerWrite(b []byte) {
	if l.reset || l.toSUTEOF {
		return
	}
	l.toSUT = append(l.toSUT, b...)
	l.written += int64(len(b))
}

// WrittenToSUT / ConsumedBySUT are stream offsets: a frame whose end offset is <= ConsumedBySUT
// has been read by the SUT; anything beyond is lost if the connection dies.
//
//go:norace
func (l *Link) WrittenToSUT() int64 { return l.written }

//go:norace
func (l *Link) ConsumedBySUT() int64 { return l.consumed }

// PeerClose queues a FIN behind the bytes already written.
//
//go:norace
func (l *Link) PeerClose() {
	l.toSUTEOF = true
	if l.NoRead {
		// a peer that closes its socket is no longer "not reading": its kernel takes (and discards)
		// whatever arrives, so writes of the SUT that were blocked on a full buffer proceed
		l.NoRead = false
		l.Conn.wq.WakeAll()
	}
}

// PeerReset kills the connection at once: pending bytes in both directions are lost.
//
//go:norace
func (l *Link) PeerReset() {
	if l.reset {
		return
	}
	l.reset = true
	l.toSUT, l.toPeer = nil, nil
	l.net.Stats.Resets++
	l.Conn.rq.WakeAll()
	l.Conn.wq.WakeAll()
}

// SetNoRead makes the peer stop (or resume) reading what the SUT writes.
//
//go:norace
func (l *Link) SetNoRead(on bool, sndbuf int) {
	l.NoRead, l.SndBuf = on, sndbuf
	if !on {
		l.Conn.wq.WakeAll()
	}
}

//go:norace
func (l *Link) PendingToSUT() int {
	if l.reset || l.Conn.closed {
		return 0
	}
	n := len(l.toSUT)
	if n == 0 && l.toSUTEOF && !l.Conn.eof {
		return 1 // the FIN
	}
	return n
}

//go:norace
func (l *Link) PendingToPeer() int {
	if l.reset {
		return 0
	}
	if l.NoRead {
		// nothing is read; that the SUT has closed its side is still made known to the harness peer
		// (its bookkeeping of what was in flight on the connection), the unread bytes are discarded
		if l.sutClosed && !l.peerGone {
			return 1
		}
		return 0
	}
	n := len(l.toPeer)
	if n == 0 && l.sutClosed && !l.peerGone {
		return 1
	}
	return n
}

// DeliverToSUT hands up to max bytes (0 = all) to the SUT side; a queued FIN is delivered when
// no bytes are left.
//
//go:norace
func (l *Link) DeliverToSUT(max int) int {
	if l.reset || l.Conn.closed {
		return 0
	}
	n := len(l.toSUT)
	if n == 0 {
		if l.toSUTEOF && !l.Conn.eof {
			l.Conn.eof = true
			l.Conn.rq.WakeAll()
		}
		return 0
	}
	if max > 0 && max < n {
		n = max
		l.net.Stats.Fragments++
	}
	l.Conn.rbuf = append(l.Conn.rbuf, l.toSUT[:n]...)
	l.toSUT = l.toSUT[n:]
	if len(l.toSUT) == 0 {
		l.toSUT = nil
	}
	l.net.Stats.BytesToSUT += int64(n)
	l.net.Stats.Deliveries++
	l.Conn.rq.WakeAll()
	return n
}

// DeliverToPeer hands everything the SUT wrote to the peer; the close follows once the queue is empty.
//
//go:norace
func (l *Link) DeliverToPeer() {
	if l.reset {
		return
	}
	if l.NoRead {
		if l.sutClosed && !l.peerGone {
			l.toPeer = nil
			l.peerGone = true
			if l.Peer != nil {
				l.Peer.OnClose(l)
			}
		}
		return
	}
	if len(l.toPeer) > 0 {
		b := l.toPeer
		l.toPeer = nil
		l.net.Stats.BytesToPeer += int64(len(b))
		l.net.Stats.Deliveries++
		if l.Peer != nil {
			l.Peer.OnData(l, b)
		}
		return
	}
	if l.sutClosed && !l.peerGone {
		l.peerGone = true
		if l.Peer != nil {
			l.Peer.OnClose(l)
		}
	}
}

//go:norace
func (l *Link) SUTClosed() bool { return l.sutClosed || l.reset }

//go:norace
func (l *Link) IsReset() bool { return l.reset }

//go:norace
func (l *Link) Dead() bool {
	return l.reset || (l.sutClosed && l.peerGone)
}

func (l *Link) String() string {
	return fmt.Sprintf("L%d[%s %v->%v]", l.ID, l.Tag, l.Local, l.Remote)
}
