// Command instrument generates the instrumenting overlay (DESIGN.md §3.2): rewritten copies
// of the non-test files of the proxy, proxycore and astra packages of the working tree in
// which every synchronisation operation is a scheduling point owned by the simulator.
//
// usage: instrument -repo /repo -out DIR [-modfile FILE]
// writes DIR/overlay.json and the rewritten files; exits 2 on anything it cannot rewrite.
package main

import (
	"encoding/json"
	"flag"
	"fmt"
	"go/ast"
	"go/token"
	"go/types"
	"os"
	"path/filepath"
	"sort"
	"strings"

	"golang.org/x/tools/go/packages"
)

const (
	rtAlias  = "__simrt"
	netAlias = "__simnet"
)

var importSwap = map[string]string{
	"sync":        "cqlsim/simsync",
	"sync/atomic": "cqlsim/simatomic",
	"math/rand":   "cqlsim/simrand",
}

var skipFiles = map[string]bool{"mockcluster.go": true}

func fail(format string, a ...interface{}) {
	fmt.Fprintf(os.Stderr, "instrument: "+format+"\n", a...)
	os.Exit(2)
}

type file struct {
	fset   *token.FileSet
	f      *ast.File
	src    []byte
	info   *types.Info
	name   string // absolute original path
	base   int    // file base offset
	useRT  bool
	useNet bool
	ctr    int
	skip   map[ast.Node]bool // nodes handled by their parent's rewrite
	stats  map[string]int
}

func main() {
	repo := flag.String("repo", "/repo", "repository root")
	out := flag.String("out", "", "output directory")
	modfile := flag.String("modfile", "", "alternative go.mod of the harness module")
	simdir := flag.String("simdir", "", "harness module directory (default: cwd)")
	flag.Parse()
	if *out == "" {
		fail("-out required")
	}
	if err := os.MkdirAll(*out, 0o755); err != nil {
		fail("%v", err)
	}
	cfg := &packages.Config{
		Mode: packages.NeedName | packages.NeedFiles | packages.NeedSyntax | packages.NeedTypes |
			packages.NeedTypesInfo | packages.NeedImports | packages.NeedDeps | packages.NeedCompiledGoFiles,
		Dir:   *simdir,
		Tests: false,
	}
	if *modfile != "" {
		cfg.BuildFlags = append(cfg.BuildFlags, "-modfile="+*modfile)
	}
	pkgs, err := packages.Load(cfg,
		"github.com/datastax/cql-proxy/proxy",
		"github.com/datastax/cql-proxy/proxycore",
		"github.com/datastax/cql-proxy/astra")
	if err != nil {
		fail("load: %v", err)
	}
	nerr := 0
	for _, p := range pkgs {
		for _, e := range p.Errors {
			fmt.Fprintf(os.Stderr, "instrument: %s: %v\n", p.PkgPath, e)
			nerr++
		}
	}
	if nerr > 0 {
		fail("the working tree does not type-check")
	}
	overlay := map[string]string{}
	total := map[string]int{}
	absRepo, _ := filepath.Abs(*repo)
	for _, p := range pkgs {
		for i, af := range p.Syntax {
			path := p.CompiledGoFiles[i]
			if !strings.HasPrefix(path, absRepo+string(os.PathSeparator)) {
				fail("file %s is outside %s", path, absRepo)
			}
			if skipFiles[filepath.Base(path)] || strings.HasSuffix(path, "_test.go") {
				continue
			}
			src, err := os.ReadFile(path)
			if err != nil {
				fail("%v", err)
			}
			tf := p.Fset.File(af.Pos())
			fl := &file{fset: p.Fset, f: af, src: src, info: p.TypesInfo, name: path, base: tf.Base(),
				skip: map[ast.Node]bool{}, stats: map[string]int{}}
			text := fl.renderFile()
			rel, _ := filepath.Rel(absRepo, path)
			dst := filepath.Join(*out, strings.ReplaceAll(rel, string(os.PathSeparator), "__"))
			if err := os.WriteFile(dst, []byte(text), 0o644); err != nil {
				fail("%v", err)
			}
			overlay[path] = dst
			for k, v := range fl.stats {
				total[k] += v
			}
		}
	}
	js, _ := json.MarshalIndent(map[string]interface{}{"Replace": overlay}, "", " ")
	if err := os.WriteFile(filepath.Join(*out, "overlay.json"), js, 0o644); err != nil {
		fail("%v", err)
	}
	keys := make([]string, 0, len(total))
	for k := range total {
		keys = append(keys, k)
	}
	sort.Strings(keys)
	var sb strings.Builder
	for _, k := range keys {
		fmt.Fprintf(&sb, "%s=%d ", k, total[k])
	}
	st, _ := json.Marshal(total)
	_ = os.WriteFile(filepath.Join(*out, "stats.json"), st, 0o644)
	fmt.Printf("instrumented %d files: %s\n", len(overlay), sb.String())
}

func (f *file) off(p token.Pos) int { return f.fset.Position(p).Offset }

func (f *file) text(lo, hi token.Pos) string { return string(f.src[f.off(lo):f.off(hi)]) }

func (f *file) line(p token.Pos) int { return f.fset.Position(p).Line }

func (f *file) lineDir(p token.Pos) string {
	return fmt.Sprintf("\n//line %s:%d\n", f.name, f.line(p))
}

func (f *file) pos(p token.Pos) string {
	ps := f.fset.Position(p)
	return fmt.Sprintf("%s:%d", filepath.Base(filepath.Dir(ps.Filename))+"/"+filepath.Base(ps.Filename), ps.Line)
}

func (f *file) bail(n ast.Node, why string) {
	fail("%s: cannot rewrite: %s", f.fset.Position(n.Pos()), why)
}

// ---- classification

func (f *file) isChan(e ast.Expr) bool {
	t := f.info.TypeOf(e)
	if t == nil {
		return false
	}
	_, ok := t.Underlying().(*types.Chan)
	return ok
}

func (f *file) isMap(e ast.Expr) bool {
	t := f.info.TypeOf(e)
	if t == nil {
		return false
	}
	_, ok := t.Underlying().(*types.Map)
	return ok
}

func (f *file) isConstOrNil(e ast.Expr) bool {
	tv, ok := f.info.Types[e]
	if !ok {
		return false
	}
	return tv.Value != nil || tv.IsNil()
}

func (f *file) pkgFunc(call *ast.CallExpr) (pkg, name string) {
	sel, ok := call.Fun.(*ast.SelectorExpr)
	if !ok {
		return "", ""
	}
	if obj, ok := f.info.Uses[sel.Sel].(*types.Func); ok && obj.Pkg() != nil {
		sig := obj.Type().(*types.Signature)
		if sig.Recv() == nil {
			return obj.Pkg().Path(), obj.Name()
		}
		return "", obj.FullName()
	}
	return "", ""
}

func (f *file) isBuiltin(call *ast.CallExpr, name string) bool {
	id, ok := call.Fun.(*ast.Ident)
	if !ok || id.Name != name {
		return false
	}
	_, isB := f.info.Uses[id].(*types.Builtin)
	return isB
}

// rewritable reports whether n is replaced as a unit.
func (f *file) rewritable(n ast.Node) bool {
	if f.skip[n] {
		return false
	}
	switch x := n.(type) {
	case *ast.ImportSpec:
		p := strings.Trim(x.Path.Value, `"`)
		_, ok := importSwap[p]
		return ok
	case *ast.GoStmt, *ast.SelectStmt, *ast.SendStmt:
		return true
	case *ast.LabeledStmt:
		_, ok := x.Stmt.(*ast.SelectStmt)
		return ok
	case *ast.UnaryExpr:
		return x.Op == token.ARROW
	case *ast.AssignStmt:
		if len(x.Lhs) == 2 && len(x.Rhs) == 1 {
			if u, ok := ast.Unparen(x.Rhs[0]).(*ast.UnaryExpr); ok && u.Op == token.ARROW {
				return true
			}
		}
	case *ast.ValueSpec:
		if len(x.Names) == 2 && len(x.Values) == 1 {
			if u, ok := ast.Unparen(x.Values[0]).(*ast.UnaryExpr); ok && u.Op == token.ARROW {
				return true
			}
		}
	case *ast.RangeStmt:
		return f.isChan(x.X) || f.isMap(x.X)
	case *ast.CallExpr:
		if f.isBuiltin(x, "close") {
			return true
		}
		pkg, name := f.pkgFunc(x)
		switch {
		case pkg == "net" && (name == "Listen" || name == "LookupHost"):
			return true
		case pkg == "crypto/tls" && name == "Listen":
			return true
		case pkg == "go.uber.org/zap" && (name == "NewProduction" || name == "NewDevelopment"):
			return true
		case name == "(*net.Dialer).DialContext" || name == "(*net.Resolver).LookupHost":
			return true
		}
	case *ast.CompositeLit:
		if t := f.info.TypeOf(x); t != nil && t.String() == "net/http.Transport" {
			for _, el := range x.Elts {
				if kv, ok := el.(*ast.KeyValueExpr); ok {
					if id, ok := kv.Key.(*ast.Ident); ok && (id.Name == "DialContext" || id.Name == "DialTLSContext" || id.Name == "Dial") {
						return false
					}
				}
			}
			return true
		}
	}
	return false
}

// render returns the source text of [lo,hi) with every outermost rewritable node replaced.
func (f *file) render(lo, hi token.Pos) string {
	var nodes []ast.Node
	ast.Inspect(f.f, func(n ast.Node) bool {
		if n == nil {
			return false
		}
		if n.End() <= lo || n.Pos() >= hi {
			return false
		}
		if n.Pos() >= lo && n.End() <= hi && f.rewritable(n) {
			nodes = append(nodes, n)
			return false
		}
		return true
	})
	var sb strings.Builder
	at := lo
	for _, n := range nodes {
		if n.Pos() < at {
			f.bail(n, "overlapping rewrites")
		}
		sb.WriteString(f.text(at, n.Pos()))
		sb.WriteString(f.rewrite(n))
		at = n.End()
	}
	sb.WriteString(f.text(at, hi))
	return sb.String()
}

func (f *file) renderNode(n ast.Node) string { return f.render(n.Pos(), n.End()) }

// renderInner renders the node's children but not the node itself (used when the node is
// itself rewritable but the caller wants its plain form).
func (f *file) renderPlain(n ast.Node) string {
	f.skip[n] = true
	s := f.render(n.Pos(), n.End())
	delete(f.skip, n)
	return s
}

func (f *file) renderStmts(list []ast.Stmt) string {
	if len(list) == 0 {
		return ""
	}
	return f.lineDir(list[0].Pos()) + f.render(list[0].Pos(), list[len(list)-1].End()) + "\n"
}

func (f *file) renderFile() string {
	body := f.render(f.f.Name.End(), token.Pos(f.base+len(f.src)))
	var sb strings.Builder
	sb.WriteString(f.text(token.Pos(f.base), f.f.Name.End()))
	if f.useRT {
		fmt.Fprintf(&sb, "; import %s \"cqlsim/simrt\"", rtAlias)
	}
	if f.useNet {
		fmt.Fprintf(&sb, "; import %s \"cqlsim/simnet\"", netAlias)
	}
	sb.WriteString(body)
	return sb.String()
}

func (f *file) rt() string  { f.useRT = true; return rtAlias }
func (f *file) net() string { f.useNet = true; return netAlias }

func (f *file) rewrite(n ast.Node) string {
	switch x := n.(type) {
	case *ast.ImportSpec:
		p := strings.Trim(x.Path.Value, `"`)
		name := filepath.Base(p)
		if x.Name != nil {
			name = x.Name.Name
		}
		f.stats["import:"+p]++
		return fmt.Sprintf("%s %q", name, importSwap[p])
	case *ast.GoStmt:
		return f.rewriteGo(x)
	case *ast.SelectStmt:
		return f.rewriteSelect(x, "")
	case *ast.LabeledStmt:
		return f.rewriteSelect(x.Stmt.(*ast.SelectStmt), x.Label.Name)
	case *ast.SendStmt:
		if f.unpublishedLocalChan(x) {
			// the channel cannot be observed by any other goroutine yet: no scheduling point
			f.stats["send-unpublished"]++
			return f.renderPlain(x)
		}
		f.stats["send"]++
		return fmt.Sprintf("{ %s.YieldOp(\"send\"); %s; %s.YieldOp(\"sent\") }", f.rt(), f.renderPlain(x), f.rt())
	case *ast.UnaryExpr:
		f.stats["recv"]++
		return fmt.Sprintf("%s.Recv(%s)", f.rt(), f.renderNode(x.X))
	case *ast.AssignStmt:
		f.stats["recv2"]++
		u := ast.Unparen(x.Rhs[0]).(*ast.UnaryExpr)
		return fmt.Sprintf("%s %s %s.Recv2(%s)", f.render(x.Lhs[0].Pos(), x.Lhs[1].End()), x.Tok, f.rt(), f.renderNode(u.X))
	case *ast.ValueSpec:
		f.stats["recv2"]++
		u := ast.Unparen(x.Values[0]).(*ast.UnaryExpr)
		end := x.Names[1].End()
		if x.Type != nil {
			end = x.Type.End()
		}
		return fmt.Sprintf("%s = %s.Recv2(%s)", f.render(x.Names[0].Pos(), end), f.rt(), f.renderNode(u.X))
	case *ast.RangeStmt:
		if f.isChan(x.X) {
			return f.rewriteRangeChan(x)
		}
		return f.rewriteRangeMap(x)
	case *ast.CallExpr:
		return f.rewriteCall(x)
	case *ast.CompositeLit:
		f.stats["http.Transport"]++
		inner := f.render(x.Lbrace+1, x.Rbrace)
		sep := ""
		if len(x.Elts) > 0 && !strings.HasSuffix(strings.TrimSpace(inner), ",") {
			sep = ","
		}
		return fmt.Sprintf("%s{%s%s DialContext: %s.DialContext,\n}", f.renderNode(x.Type), inner, sep, f.net())
	}
	f.bail(n, "internal: no rewrite")
	return ""
}

// unpublishedLocalChan reports whether the channel of send is a local variable created by
// make(chan ...) in the enclosing function that has not been used in any other way (stored,
// passed, captured) before the send can execute: every non-send use lies after the outermost
// loop that contains the send. Such a channel is invisible to other goroutines, so the send
// needs no scheduling point (this matters for the 2048-element free-list fill of every
// backend connection).
func (f *file) unpublishedLocalChan(send *ast.SendStmt) bool {
	id, ok := ast.Unparen(send.Chan).(*ast.Ident)
	if !ok {
		return false
	}
	obj, ok := f.info.Uses[id].(*types.Var)
	if !ok || obj.IsField() || obj.Parent() == nil || obj.Parent() == obj.Pkg().Scope() {
		return false
	}
	// enclosing function and outermost enclosing loop
	var fn ast.Node
	var outerLoop ast.Node
	var path []ast.Node
	ast.Inspect(f.f, func(n ast.Node) bool {
		if n == nil {
			path = path[:len(path)-1]
			return false
		}
		path = append(path, n)
		if n == ast.Node(send) {
			for _, p := range path {
				switch p.(type) {
				case *ast.FuncDecl, *ast.FuncLit:
					fn = p
					outerLoop = nil
				case *ast.ForStmt, *ast.RangeStmt:
					if outerLoop == nil {
						outerLoop = p
					}
				}
			}
		}
		return true
	})
	if fn == nil {
		return false
	}
	if obj.Pos() < fn.Pos() || obj.Pos() > fn.End() {
		return false // captured from an outer function
	}
	barrier := send.End()
	if outerLoop != nil {
		if obj.Pos() > outerLoop.Pos() {
			return false // declared inside the loop: keep it simple
		}
		barrier = outerLoop.End()
	}
	// the defining statement must be `x := make(chan ...)`
	defOK := false
	safe := map[*ast.Ident]bool{}
	ast.Inspect(fn, func(n ast.Node) bool {
		switch x := n.(type) {
		case *ast.AssignStmt:
			if x.Tok == token.DEFINE && len(x.Lhs) == 1 && len(x.Rhs) == 1 {
				if l, ok := x.Lhs[0].(*ast.Ident); ok && f.info.Defs[l] == obj {
					if c, ok := x.Rhs[0].(*ast.CallExpr); ok && f.isBuiltin(c, "make") {
						defOK = true
					}
				}
			}
		case *ast.SendStmt:
			if l, ok := ast.Unparen(x.Chan).(*ast.Ident); ok && f.info.Uses[l] == obj {
				safe[l] = true
			}
		}
		return true
	})
	if !defOK {
		return false
	}
	okAll := true
	ast.Inspect(fn, func(n ast.Node) bool {
		if l, ok := n.(*ast.Ident); ok && f.info.Uses[l] == obj && !safe[l] && l.Pos() < barrier {
			okAll = false
		}
		return true
	})
	return okAll
}

func (f *file) args(call *ast.CallExpr) string {
	if len(call.Args) == 0 {
		return ""
	}
	s := f.render(call.Args[0].Pos(), call.Args[len(call.Args)-1].End())
	if call.Ellipsis.IsValid() {
		s += "..."
	}
	return s
}

func (f *file) rewriteCall(x *ast.CallExpr) string {
	if f.isBuiltin(x, "close") {
		f.stats["close"]++
		return fmt.Sprintf("%s.Close(%s)", f.rt(), f.args(x))
	}
	pkg, name := f.pkgFunc(x)
	switch {
	case pkg == "net" && name == "Listen":
		f.stats["net.Listen"]++
		return fmt.Sprintf("%s.Listen(%s)", f.net(), f.args(x))
	case pkg == "net" && name == "LookupHost":
		f.stats["net.LookupHost"]++
		return fmt.Sprintf("%s.LookupHost(%s)", f.net(), f.args(x))
	case pkg == "crypto/tls" && name == "Listen":
		f.stats["tls.Listen"]++
		return fmt.Sprintf("%s.TLSListen(%s)", f.net(), f.args(x))
	case pkg == "go.uber.org/zap":
		f.stats["zap.New"]++
		return fmt.Sprintf("%s.NewZapLogger(%q)", f.net(), name)
	case name == "(*net.Dialer).DialContext":
		f.stats["DialContext"]++
		recv := x.Fun.(*ast.SelectorExpr).X
		return fmt.Sprintf("%s.DialContextWith(%s, %s)", f.net(), f.renderNode(recv), f.args(x))
	case name == "(*net.Resolver).LookupHost":
		f.stats["Resolver.LookupHost"]++
		recv := x.Fun.(*ast.SelectorExpr).X
		return fmt.Sprintf("%s.LookupHostWith(%s, %s)", f.net(), f.renderNode(recv), f.args(x))
	}
	f.bail(x, "internal: call")
	return ""
}

func (f *file) rewriteGo(g *ast.GoStmt) string {
	f.stats["go"]++
	f.ctr++
	id := f.ctr
	call := g.Call
	var sb strings.Builder
	sb.WriteString("{ ")
	fn := ""
	switch fun := ast.Unparen(call.Fun).(type) {
	case *ast.FuncLit:
		fn = fmt.Sprintf("_sim%d_f", id)
		fmt.Fprintf(&sb, "%s := %s; ", fn, f.renderNode(fun))
	default:
		// package-level functions and method values: bind now (the receiver is evaluated by the go statement)
		fn = fmt.Sprintf("_sim%d_f", id)
		fmt.Fprintf(&sb, "%s := %s; ", fn, f.renderNode(call.Fun))
	}
	var argv []string
	for i, a := range call.Args {
		if tv, ok := f.info.Types[a]; ok {
			if tup, isTuple := tv.Type.(*types.Tuple); isTuple && tup.Len() > 1 {
				f.bail(g, "go statement with a multi-value argument")
			}
		}
		if f.isConstOrNil(a) {
			argv = append(argv, f.renderNode(a))
			continue
		}
		v := fmt.Sprintf("_sim%d_a%d", id, i)
		fmt.Fprintf(&sb, "%s := %s; ", v, f.renderNode(a))
		argv = append(argv, v)
	}
	ell := ""
	if call.Ellipsis.IsValid() {
		ell = "..."
	}
	fmt.Fprintf(&sb, "%s.Go(%q, func() { %s(%s%s) }) }", f.rt(), f.pos(g.Pos()), fn, strings.Join(argv, ", "), ell)
	sb.WriteString(f.lineDir(g.End()))
	return sb.String()
}

type selCase struct {
	clause *ast.CommClause
	send   *ast.SendStmt
	recvX  ast.Expr
	lhs    []ast.Expr
	tok    token.Token
}

func (f *file) rewriteSelect(s *ast.SelectStmt, label string) string {
	f.stats["select"]++
	f.ctr++
	id := f.ctr
	var cases []selCase
	var dflt *ast.CommClause
	for _, st := range s.Body.List {
		cc := st.(*ast.CommClause)
		if cc.Comm == nil {
			dflt = cc
			continue
		}
		c := selCase{clause: cc}
		switch cm := cc.Comm.(type) {
		case *ast.SendStmt:
			c.send = cm
		case *ast.ExprStmt:
			u, ok := ast.Unparen(cm.X).(*ast.UnaryExpr)
			if !ok || u.Op != token.ARROW {
				f.bail(cm, "select case is not a receive")
			}
			c.recvX = u.X
		case *ast.AssignStmt:
			u, ok := ast.Unparen(cm.Rhs[0]).(*ast.UnaryExpr)
			if !ok || u.Op != token.ARROW {
				f.bail(cm, "select case is not a receive")
			}
			c.recvX = u.X
			c.lhs = cm.Lhs
			c.tok = cm.Tok
		default:
			f.bail(cc, "unknown select communication")
		}
		cases = append(cases, c)
	}
	rt := f.rt()
	p := fmt.Sprintf("_sim%d_", id)
	var sb strings.Builder
	if len(cases) == 0 {
		if dflt != nil {
			// only a default: no communication at all
			fmt.Fprintf(&sb, "{ %s }", f.renderStmts(dflt.Body))
			return sb.String()
		}
		fmt.Fprintf(&sb, "{ %s.YieldOp(\"select\"); select {} }", rt)
		return sb.String()
	}
	sb.WriteString("{\n")
	// operands, in source order
	vals := make([]string, len(cases))
	for i, c := range cases {
		if c.send != nil {
			fmt.Fprintf(&sb, "%sc%d := %s\n", p, i, f.renderNode(c.send.Chan))
			if f.isConstOrNil(c.send.Value) {
				vals[i] = f.renderNode(c.send.Value)
			} else {
				vals[i] = fmt.Sprintf("%sv%d", p, i)
				fmt.Fprintf(&sb, "%s := %s\n", vals[i], f.renderNode(c.send.Value))
			}
		} else {
			fmt.Fprintf(&sb, "%sc%d := %s\n", p, i, f.renderNode(c.recvX))
		}
	}
	for i, c := range cases {
		if c.send == nil {
			fmt.Fprintf(&sb, "%sr%d, %sok%d := %s.ZeroOf(%sc%d); _, _ = %sr%d, %sok%d\n", p, i, p, i, rt, p, i, p, i, p, i)
		}
	}
	comm := func(i int) string {
		if cases[i].send != nil {
			return fmt.Sprintf("case %sc%d <- %s: %sk = %d", p, i, vals[i], p, i)
		}
		return fmt.Sprintf("case %sr%d, %sok%d = <-%sc%d: %sk = %d", p, i, p, i, p, i, p, i)
	}
	fmt.Fprintf(&sb, "%sk := -1\n%s.YieldOp(\"select\")\n", p, rt)
	fmt.Fprintf(&sb, "for _, %si := range %s.PollOrder(%d) {\nswitch %si {\n", p, rt, len(cases), p)
	for i := range cases {
		fmt.Fprintf(&sb, "case %d:\nselect {\n%s\ndefault:\n}\n", i, comm(i))
	}
	fmt.Fprintf(&sb, "}\nif %sk >= 0 {\nbreak\n}\n}\n", p)
	fmt.Fprintf(&sb, "if %sk < 0 {\n", p)
	if dflt != nil {
		fmt.Fprintf(&sb, "%sk = %d\n", p, len(cases))
	} else {
		sb.WriteString("select {\n")
		for i := range cases {
			sb.WriteString(comm(i) + "\n")
		}
		fmt.Fprintf(&sb, "}\n%s.Woke()\n", rt)
	}
	sb.WriteString("}\n")
	if label != "" {
		fmt.Fprintf(&sb, "%s:\n", label)
	}
	fmt.Fprintf(&sb, "switch %sk {\n", p)
	for i, c := range cases {
		fmt.Fprintf(&sb, "case %d:\n", i)
		if len(c.lhs) > 0 {
			allBlank := true
			for _, l := range c.lhs {
				if id, ok := l.(*ast.Ident); !ok || id.Name != "_" {
					allBlank = false
				}
			}
			if !allBlank {
				lhs := f.render(c.lhs[0].Pos(), c.lhs[len(c.lhs)-1].End())
				rhs := fmt.Sprintf("%sr%d", p, i)
				if len(c.lhs) == 2 {
					rhs += fmt.Sprintf(", %sok%d", p, i)
				}
				fmt.Fprintf(&sb, "%s %s %s\n", lhs, c.tok, rhs)
			}
		}
		sb.WriteString(f.renderStmts(c.clause.Body))
	}
	if dflt != nil {
		sb.WriteString("default:\n")
		sb.WriteString(f.renderStmts(dflt.Body))
	} else {
		sb.WriteString("default:\npanic(\"simrt: unreachable select case\")\n")
	}
	sb.WriteString("}\n}")
	sb.WriteString(f.lineDir(s.End()))
	return sb.String()
}

func (f *file) rewriteRangeChan(r *ast.RangeStmt) string {
	f.stats["range-chan"]++
	f.ctr++
	p := fmt.Sprintf("_sim%d_", f.ctr)
	rt := f.rt()
	var sb strings.Builder
	ch := f.renderNode(r.X)
	fmt.Fprintf(&sb, "for %sc := %s; ; {\n", p, ch)
	if r.Key == nil {
		fmt.Fprintf(&sb, "_, %sok := %s.Recv2(%sc)\nif !%sok {\nbreak\n}\n", p, rt, p, p)
	} else if r.Tok == token.DEFINE {
		fmt.Fprintf(&sb, "%s, %sok := %s.Recv2(%sc)\nif !%sok {\nbreak\n}\n", f.renderNode(r.Key), p, rt, p, p)
	} else {
		fmt.Fprintf(&sb, "var %sok bool\n%s, %sok = %s.Recv2(%sc)\nif !%sok {\nbreak\n}\n", p, f.renderNode(r.Key), p, rt, p, p)
	}
	sb.WriteString(f.renderStmts(r.Body.List))
	sb.WriteString("}")
	sb.WriteString(f.lineDir(r.End()))
	return sb.String()
}

func (f *file) rewriteRangeMap(r *ast.RangeStmt) string {
	f.stats["range-map"]++
	f.ctr++
	p := fmt.Sprintf("_sim%d_", f.ctr)
	rt := f.rt()
	switch ast.Unparen(r.X).(type) {
	case *ast.Ident, *ast.SelectorExpr:
	default:
		f.bail(r, "range over a map expression that is not an identifier or selector")
	}
	if r.Tok != token.DEFINE && r.Key != nil {
		f.bail(r, "range over a map with '=' assignment")
	}
	m := f.renderNode(r.X)
	var sb strings.Builder
	key := p + "k"
	if id, ok := r.Key.(*ast.Ident); ok && id.Name != "_" {
		key = id.Name
	}
	fmt.Fprintf(&sb, "for _, %s := range %s.MapKeys(%s) {\n", key, rt, m)
	val := "_"
	if r.Value != nil {
		if id, ok := r.Value.(*ast.Ident); ok {
			val = id.Name
		} else {
			f.bail(r, "range value is not an identifier")
		}
	}
	fmt.Fprintf(&sb, "%s, %sok := (%s)[%s]; _ = %s\nif !%sok {\ncontinue\n}\n", valOr(val, p+"v"), p, m, key, valOr(val, p+"v"), p)
	sb.WriteString(f.renderStmts(r.Body.List))
	sb.WriteString("}")
	sb.WriteString(f.lineDir(r.End()))
	return sb.String()
}

func valOr(v, alt string) string {
	if v == "_" {
		return alt
	}
	return v
}
