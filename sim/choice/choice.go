// Package choice is the single source of nondeterminism of a run: a PCG stream seeded from
// VERIF_SEED in exploration mode, or an explicit list of choices in replay/shrink mode.
// Option 0 of every choice point is the benign default, so a truncated list (missing choices
// read as 0) continues as a sequential, fault-free run (DESIGN.md §6).
package choice

import (
	"hash/fnv"
	"sync"
)

// MaxChoices bounds one run (a safety net against harness loops that never terminate).
const MaxChoices = 6000000

type Rec struct {
	Label string `json:"l"`
	N     int    `json:"n"`
	V     int    `json:"v"`
}

type Stream struct {
	mu     sync.Mutex
	rng    uint64 // xorshift64* state (own implementation: no instrumented library code on the SUT's path)
	replay []int
	isRep  bool
	pos    int
	Log    []Rec
	// KeepLabels controls whether labels are recorded (they cost memory on long runs).
	KeepLabels bool
	hash       uint64
	// Limit, if >0, makes every choice after the first Limit choices 0 (used while shrinking).
}

func NewSeeded(seed uint64) *Stream {
	st := seed*0x9E3779B97F4A7C15 ^ 0xD1B54A32D192ED03
	if st == 0 {
		st = 0x2545F4914F6CDD1D
	}
	s := &Stream{rng: st, KeepLabels: true, hash: 1469598103934665603}
	for i := 0; i < 8; i++ {
		s.next()
	}
	return s
}

func NewReplay(vals []int) *Stream {
	return &Stream{replay: vals, isRep: true, KeepLabels: true, hash: 1469598103934665603}
}

//go:norace
func (s *Stream) next() uint64 {
	x := s.rng
	x ^= x >> 12
	x ^= x << 25
	x ^= x >> 27
	s.rng = x
	return (x * 0x2545F4914F6CDD1D) >> 16
}

//go:norace
func (s *Stream) Choose(label string, n int) int {
	if n <= 1 {
		return 0
	}
	s.mu.Lock()
	defer s.mu.Unlock()
	var v int
	if s.isRep {
		if s.pos < len(s.replay) {
			v = s.replay[s.pos]
			if v < 0 {
				v = 0
			}
			if v >= n {
				v = v % n
			}
		}
	} else {
		v = int(s.next() % uint64(n))
	}
	s.pos++
	if s.pos > MaxChoices {
		panic("choice stream exhausted: more than MaxChoices choices in one run (a harness loop that does not terminate under replay?)")
	}
	r := Rec{N: n, V: v}
	if s.KeepLabels {
		r.Label = label
	}
	s.Log = append(s.Log, r)
	s.hash = (s.hash ^ uint64(v)) * 1099511628211
	s.hash = (s.hash ^ uint64(n)) * 1099511628211
	return v
}

// Bool returns true with probability num/den; false is the benign value 0.
func (s *Stream) Bool(label string, num, den int) bool {
	if num <= 0 {
		return false
	}
	return s.Choose(label, den) >= den-num
}

// Weighted picks an index with probability proportional to w[i]; index 0 is the benign default
// (a replayed 0 always maps to the first option with positive weight).
func (s *Stream) Weighted(label string, w []int) int {
	total := 0
	for _, x := range w {
		total += x
	}
	if total <= 0 {
		return 0
	}
	v := s.Choose(label, total)
	for i, x := range w {
		if v < x {
			return i
		}
		v -= x
	}
	return len(w) - 1
}

// Range returns a value in [lo,hi]; lo is benign.
func (s *Stream) Range(label string, lo, hi int) int {
	if hi <= lo {
		return lo
	}
	return lo + s.Choose(label, hi-lo+1)
}

func (s *Stream) Values() []int {
	s.mu.Lock()
	defer s.mu.Unlock()
	out := make([]int, len(s.Log))
	for i, r := range s.Log {
		out[i] = r.V
	}
	return out
}

func (s *Stream) Len() int     { s.mu.Lock(); defer s.mu.Unlock(); return s.pos }
func (s *Stream) Hash() uint64 { s.mu.Lock(); defer s.mu.Unlock(); return s.hash }

func HashString(x string) uint64 {
	h := fnv.New64a()
	h.Write([]byte(x))
	return h.Sum64()
}
