module cqlsim

go 1.26.0

require (
	github.com/datastax/cql-proxy v0.0.0
	github.com/datastax/go-cassandra-native-protocol v0.0.0-20220706104457-5e8aad05cf90
	go.uber.org/zap v1.17.0
	golang.org/x/tools v0.50.0
)

require (
	go.uber.org/atomic v1.8.0 // indirect
	go.uber.org/multierr v1.7.0 // indirect
	golang.org/x/mod v0.41.0 // indirect
	golang.org/x/sync v0.23.0 // indirect
)

replace github.com/datastax/cql-proxy => /repo
