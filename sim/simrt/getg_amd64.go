package simrt

func getg() uintptr
