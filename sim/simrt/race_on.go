//go:build race

package simrt

import (
	"runtime"
	"unsafe"
)

const RaceEnabled = true

// raceDisable/raceEnable hide the scheduler's own hand-offs from the race detector so that
// the serialisation imposed by the simulator adds no happens-before edges (DESIGN.md §3.7).
func raceDisable() { runtime.RaceDisable() }
func raceEnable()  { runtime.RaceEnable() }

func RaceDisable() { runtime.RaceDisable() }
func RaceEnable()  { runtime.RaceEnable() }

func RaceAcquire(p unsafe.Pointer)      { runtime.RaceAcquire(p) }
func RaceRelease(p unsafe.Pointer)      { runtime.RaceRelease(p) }
func RaceReleaseMerge(p unsafe.Pointer) { runtime.RaceReleaseMerge(p) }
