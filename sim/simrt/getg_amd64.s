#include "textflag.h"

// func getg() uintptr
// The address of the current goroutine's g: a cheap goroutine identity (runtime.Stack-based
// ids cost a full traceback per call).
TEXT ·getg(SB),NOSPLIT,$0-8
	MOVQ (TLS), AX
	MOVQ AX, ret+0(FP)
	RET
