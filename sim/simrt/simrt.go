// Package simrt is the task scheduler of the deterministic simulator.
//
// Every goroutine of the system under test (SUT) is a Task. Instrumented SUT code calls
// Yield() before each synchronisation operation and after each native wake-up; Yield parks
// the goroutine on its private wake channel until the scheduler goroutine releases it.
// At most one task runs SUT code at any moment, so a run is a function of the choices the
// scheduler makes (see DESIGN.md §3.3).
//
// Everything in this file that is reachable from SUT goroutines is //go:norace and avoids
// Go maps (whose runtime implementation reports accesses to the race detector even from
// norace callers): in the -race build the scheduler must contribute neither accesses nor
// happens-before edges (DESIGN.md §3.7).
package simrt

import (
	"fmt"
	"runtime"
	"runtime/debug"
	"sort"
	"sync"
	"sync/atomic"
	"testing/synctest"
	"time"
)

type TaskState int32

const (
	Running TaskState = iota
	Runnable
	Blocked
	Exited
)

func (s TaskState) String() string {
	return [...]string{"running", "runnable", "blocked", "exited"}[s]
}

// Task is one SUT goroutine.
type Task struct {
	ID      int
	Name    string
	gid     uint64
	wake    chan struct{}
	state   TaskState
	waitOn  *WaitQ
	waitObj interface{} // the sim primitive the task waits for (diagnostics, deadlock reports)
	killed  bool
	exiting bool
	Steps   int
	Op      string // label of the operation the task is parked at
	adopted bool
	num     uint64 // numeric goroutine id (adopted tasks only)
	fresh   bool   // adopted (and parked) during the current call: a Block must return so that its caller re-checks
}

//go:norace
func (t *Task) String() string { return fmt.Sprintf("T%d(%s)", t.ID, t.Name) }

// State is only meaningful to the scheduler goroutine after Settle().
//
//go:norace
func (t *Task) State() TaskState { return t.state }

//go:norace
func (t *Task) WaitObj() interface{} { return t.waitObj }

//go:norace
func (t *Task) OpLabel() string { return t.Op }

// Chooser is the single source of nondeterminism of a run.
type Chooser interface {
	Choose(label string, n int) int
}

type PanicInfo struct {
	Task  string
	Value string
	Stack string
}

type gidEntry struct {
	gid uint64
	t   *Task
}

type Sched struct {
	mu       sync.Mutex
	gids     []gidEntry // open-addressing table gid -> task (no Go map: see package comment)
	ngids    int
	tasks    []*Task
	runnable []*Task
	notify   chan struct{}
	schedGid uint64
	chooser  Chooser
	running  *Task
	killing  bool
	nextID   int
	Panics   []PanicInfo
	Steps    int64
	// Progress is bumped on every scheduler step; a real-time watchdog outside the bubble reads it.
	Progress atomic.Int64
}

var cur atomic.Pointer[Sched]

// Active reports whether a simulation is in progress in this process.
func Active() bool { return cur.Load() != nil }

// Current returns the active scheduler or nil.
func Current() *Sched { return cur.Load() }

// New creates a scheduler owned by the calling goroutine, which must be the root goroutine of
// a synctest bubble, and makes it the process-wide current scheduler.
func New(ch Chooser) *Sched {
	s := &Sched{
		gids:     make([]gidEntry, 1024),
		notify:   make(chan struct{}, 1),
		schedGid: goid(),
		chooser:  ch,
	}
	if !cur.CompareAndSwap(nil, s) {
		panic("simrt: a scheduler is already active")
	}
	return s
}

// Release detaches the scheduler; sim primitives fall back to their real behaviour.
func (s *Sched) Release() { cur.CompareAndSwap(s, nil) }

// goid identifies the calling goroutine by the address of its g (unique while it is alive;
// the mapping is dropped when a task exits, so a recycled g is adopted afresh).
//
//go:norace
func goid() uint64 { return uint64(getg()) }

//go:norace
func (s *Sched) gidLookup(g uint64) *Task {
	mask := uint64(len(s.gids) - 1)
	for i := ((g >> 4) * 0x9E3779B97F4A7C15) >> 20 & mask; ; i = (i + 1) & mask {
		e := &s.gids[i]
		if e.gid == g {
			return e.t
		}
		if e.gid == 0 {
			return nil
		}
	}
}

//go:norace
func (s *Sched) gidInsert(g uint64, t *Task) {
	if (s.ngids+1)*2 > len(s.gids) {
		old := s.gids
		s.gids = make([]gidEntry, len(old)*2)
		s.ngids = 0
		for _, e := range old {
			if e.gid != 0 && e.t != nil {
				s.gidInsert(e.gid, e.t)
			}
		}
	}
	mask := uint64(len(s.gids) - 1)
	for i := ((g >> 4) * 0x9E3779B97F4A7C15) >> 20 & mask; ; i = (i + 1) & mask {
		e := &s.gids[i]
		if e.gid == 0 || e.gid == g {
			if e.gid == 0 {
				s.ngids++
			}
			e.gid, e.t = g, t
			return
		}
	}
}

// gidDelete keeps the slot as a tombstone (gid stays, task nil): goroutine ids are never reused.
//
//go:norace
func (s *Sched) gidDelete(g uint64) {
	mask := uint64(len(s.gids) - 1)
	for i := ((g >> 4) * 0x9E3779B97F4A7C15) >> 20 & mask; ; i = (i + 1) & mask {
		e := &s.gids[i]
		if e.gid == g {
			e.t = nil
			return
		}
		if e.gid == 0 {
			return
		}
	}
}

//go:norace
func (s *Sched) signal() {
	select {
	case s.notify <- struct{}{}:
	default:
	}
}

//go:norace
func (s *Sched) addRunnable(t *Task) {
	t.state = Runnable
	s.runnable = append(s.runnable, t)
}

//go:norace
func (s *Sched) delRunnable(t *Task) {
	for i, x := range s.runnable {
		if x == t {
			last := len(s.runnable) - 1
			s.runnable[i] = s.runnable[last]
			s.runnable[last] = nil
			s.runnable = s.runnable[:last]
			return
		}
	}
}

// self returns the calling goroutine's task (adopting unknown goroutines), or nil for the
// scheduler goroutine itself.
//
//go:norace
func (s *Sched) self() *Task {
	g := goid()
	if g == s.schedGid {
		return nil
	}
	raceDisable()
	s.mu.Lock()
	t := s.gidLookup(g)
	if t != nil && t.adopted {
		// An adopted goroutine (one that library code started, e.g. net/http's per-connection
		// goroutine) ends without telling the scheduler, and the runtime recycles its g for a later
		// goroutine: the address alone does not identify it. Its numeric id does (slow, but adopted
		// goroutines are few).
		if n := numericGoid(); n != t.num {
			t = nil
		}
	}
	fresh := false
	if t == nil {
		t = &Task{ID: s.nextID, Name: "adopted", gid: g, wake: make(chan struct{}, 1), adopted: true, num: numericGoid()}
		s.nextID++
		s.tasks = append(s.tasks, t)
		s.gidInsert(g, t)
		fresh = true
	}
	s.mu.Unlock()
	raceEnable()
	if fresh {
		// A goroutine that library code started has been running on its own, in parallel with the
		// task that is being stepped. From its first contact with a sim primitive on it is a task
		// like any other: it parks here and does nothing until the scheduler picks it, so the order
		// of its effects relative to other tasks is the scheduler's choice, not the Go runtime's.
		s.park(t, "adopt")
		t.fresh = true
	}
	return t
}

// numericGoid parses the goroutine number out of the stack header ("goroutine 123 [running]").
//
//go:norace
func numericGoid() uint64 {
	var buf [40]byte
	n := runtime.Stack(buf[:], false)
	var id uint64
	for _, c := range buf[len("goroutine "):n] {
		if c < '0' || c > '9' {
			break
		}
		id = id*10 + uint64(c-'0')
	}
	return id
}

// Self returns the current task, or nil outside a simulation / on the scheduler goroutine.
//
//go:norace
func Self() *Task {
	s := cur.Load()
	if s == nil {
		return nil
	}
	return s.self()
}

// Touch makes the calling goroutine a task if it is not one yet (parking it until the scheduler
// picks it). The simulated network calls it at the entry of every operation, before looking at
// any state, so that a goroutine started by library code becomes schedulable at its first I/O
// whether or not that I/O would block.
//
//go:norace
func Touch() {
	s := cur.Load()
	if s == nil {
		return
	}
	if t := s.self(); t != nil {
		t.fresh = false
	}
}

// Yield is a scheduling point: the calling task parks until the scheduler releases it.
//
//go:norace
func Yield() { YieldOp("") }

// Woke is the scheduling point placed directly after a native blocking operation.
//
//go:norace
func Woke() { YieldOp("woke") }

//go:norace
func YieldOp(op string) {
	s := cur.Load()
	if s == nil {
		return
	}
	t := s.self()
	if t == nil {
		return
	}
	if t.fresh {
		t.fresh = false // it has just been parked and released: that was the scheduling point
		return
	}
	s.park(t, op)
}

//go:norace
func (s *Sched) park(t *Task, op string) {
	raceDisable()
	s.mu.Lock()
	if t.exiting {
		s.mu.Unlock()
		raceEnable()
		return
	}
	if s.killing || t.killed {
		t.exiting = true
		s.mu.Unlock()
		raceEnable()
		runtime.Goexit()
	}
	t.Op = op
	s.addRunnable(t)
	s.mu.Unlock()
	s.signal()
	<-t.wake
	s.mu.Lock()
	k := t.killed
	if k {
		t.exiting = true
	}
	s.mu.Unlock()
	raceEnable()
	if k {
		runtime.Goexit()
	}
}

// WaitQ is a queue of tasks blocked on a sim primitive.
type WaitQ struct {
	waiters []*Task
}

// Block parks the calling task on q until some WakeAll makes it runnable again and
// the scheduler releases it. obj identifies the primitive for diagnostics.
//
//go:norace
func Block(q *WaitQ, obj interface{}, op string) {
	s := cur.Load()
	if s == nil {
		panic("simrt.Block outside a simulation")
	}
	t := s.self()
	if t == nil {
		panic("simrt: the scheduler goroutine would block on a sim primitive: " + op)
	}
	if t.fresh {
		// the caller decided to block before this goroutine became a task and was parked; what it
		// waits for may have happened meanwhile: return (callers re-check their condition in a loop)
		t.fresh = false
		return
	}
	raceDisable()
	s.mu.Lock()
	if t.exiting {
		s.mu.Unlock()
		raceEnable()
		return
	}
	if s.killing || t.killed {
		t.exiting = true
		s.mu.Unlock()
		raceEnable()
		runtime.Goexit()
	}
	t.state = Blocked
	t.waitOn = q
	t.waitObj = obj
	t.Op = op
	q.waiters = append(q.waiters, t)
	s.mu.Unlock()
	<-t.wake
	s.mu.Lock()
	k := t.killed
	if k {
		t.exiting = true
	}
	s.mu.Unlock()
	raceEnable()
	if k {
		runtime.Goexit()
	}
}

// WakeAll makes every waiter runnable (they re-check their condition when scheduled).
//
//go:norace
func (q *WaitQ) WakeAll() {
	if len(q.waiters) == 0 {
		return
	}
	s := cur.Load()
	if s == nil {
		return
	}
	raceDisable()
	s.mu.Lock()
	for i, t := range q.waiters {
		if t.state == Blocked && t.waitOn == q {
			t.waitOn = nil
			s.addRunnable(t)
		}
		q.waiters[i] = nil
	}
	q.waiters = q.waiters[:0]
	s.mu.Unlock()
	s.signal()
	raceEnable()
}

//go:norace
func (q *WaitQ) Len() int { return len(q.waiters) }

// Exiting reports whether the calling task is being torn down; sim primitives then never block.
//
//go:norace
func Exiting() bool {
	s := cur.Load()
	if s == nil {
		return false
	}
	g := goid()
	raceDisable()
	s.mu.Lock()
	r := false
	if t := s.gidLookup(g); t != nil {
		r = t.exiting || t.killed || s.killing
	}
	s.mu.Unlock()
	raceEnable()
	return r
}

// Go starts fn as a new task. The parent allocates the id, so numbering is deterministic.
// The go statement itself stays visible to the race detector (it is a real ordering).
//
//go:norace
func Go(name string, fn func()) {
	s := cur.Load()
	if s == nil {
		go fn()
		return
	}
	raceDisable()
	s.mu.Lock()
	t := &Task{ID: s.nextID, Name: name, wake: make(chan struct{}, 1)}
	s.nextID++
	s.tasks = append(s.tasks, t)
	t.state = Running
	s.mu.Unlock()
	raceEnable()
	go s.taskMain(t, fn)
}

//go:norace
func (s *Sched) taskMain(t *Task, fn func()) {
	g := goid()
	raceDisable()
	s.mu.Lock()
	t.gid = g
	s.gidInsert(g, t)
	s.mu.Unlock()
	raceEnable()
	defer s.exit(t)
	s.park(t, "start")
	fn()
}

//go:norace
func (s *Sched) exit(t *Task) {
	r := recover()
	raceDisable()
	s.mu.Lock()
	if r != nil {
		s.Panics = append(s.Panics, PanicInfo{Task: t.String(), Value: fmt.Sprint(r), Stack: string(debug.Stack())})
	}
	if t.state == Runnable {
		s.delRunnable(t)
	}
	t.state = Exited
	s.gidDelete(t.gid)
	s.mu.Unlock()
	s.signal()
	raceEnable()
}

// Choose draws from the run's choice stream. Only the running task or the scheduler may call it.
//
//go:norace
func Choose(label string, n int) int {
	if n <= 1 {
		return 0
	}
	s := cur.Load()
	if s == nil {
		return 0
	}
	raceDisable()
	r := s.chooser.Choose(label, n)
	raceEnable()
	return r
}

// ---- scheduler-side API (scheduler goroutine only) ----

// Settle waits until every goroutine in the bubble is parked or durably blocked.
//
//go:norace
func (s *Sched) Settle() {
	raceDisable()
	synctest.Wait()
	raceEnable()
}

// RunnableTasks returns the parked tasks sorted by id. Call after Settle.
//
//go:norace
func (s *Sched) RunnableTasks() []*Task {
	raceDisable()
	s.mu.Lock()
	out := make([]*Task, len(s.runnable))
	copy(out, s.runnable)
	s.mu.Unlock()
	raceEnable()
	sort.Slice(out, func(i, j int) bool { return out[i].ID < out[j].ID })
	return out
}

// Tasks returns all tasks ever created (including exited ones).
//
//go:norace
func (s *Sched) Tasks() []*Task {
	raceDisable()
	s.mu.Lock()
	out := append([]*Task(nil), s.tasks...)
	s.mu.Unlock()
	raceEnable()
	return out
}

// Step releases one runnable task; it runs until its next yield or native block.
//
//go:norace
func (s *Sched) Step(t *Task) {
	raceDisable()
	s.mu.Lock()
	if t.state != Runnable {
		s.mu.Unlock()
		raceEnable()
		panic("simrt: Step on a task that is not runnable: " + t.String())
	}
	s.delRunnable(t)
	t.state = Running
	t.Steps++
	s.running = t
	s.Steps++
	s.mu.Unlock()
	s.Progress.Add(1)
	t.wake <- struct{}{}
	raceEnable()
}

// Idle blocks the scheduler goroutine until a task parks by itself (a timer fired, a context
// expired) or max simulated time has passed. It returns true if some task is runnable afterwards.
// Call only after Settle with no runnable task; the bubble's fake clock advances meanwhile.
//
//go:norace
func (s *Sched) Idle(max time.Duration) bool {
	raceDisable()
	defer raceEnable()
	select {
	case <-s.notify:
	default:
	}
	s.Progress.Add(1)
	tm := time.NewTimer(max)
	defer tm.Stop()
	select {
	case <-s.notify:
	case <-tm.C:
	}
	synctest.Wait()
	s.mu.Lock()
	n := len(s.runnable)
	s.mu.Unlock()
	return n > 0
}

// BlockedTasks returns the tasks blocked on sim primitives (locks, wait groups).
//
//go:norace
func (s *Sched) BlockedTasks() []*Task {
	raceDisable()
	s.mu.Lock()
	var out []*Task
	for _, t := range s.tasks {
		if t.state == Blocked {
			out = append(out, t)
		}
	}
	s.mu.Unlock()
	raceEnable()
	return out
}

// KillAll tears down every task that is parked or blocked on a sim primitive. Goroutines
// blocked natively cannot be killed; they are abandoned with the bubble.
//
//go:norace
func (s *Sched) KillAll() {
	raceDisable()
	defer raceEnable()
	for round := 0; round < 50; round++ {
		synctest.Wait()
		s.mu.Lock()
		s.killing = true
		var victims []*Task
		for _, t := range s.tasks {
			if (t.state == Runnable || t.state == Blocked) && !t.killed {
				t.killed = true
				victims = append(victims, t)
			}
		}
		s.runnable = nil
		s.mu.Unlock()
		if len(victims) == 0 {
			return
		}
		for _, t := range victims {
			t.wake <- struct{}{}
		}
	}
}

// Live returns the number of tasks that have not exited.
//
//go:norace
func (s *Sched) Live() (n int) {
	raceDisable()
	s.mu.Lock()
	for _, t := range s.tasks {
		if t.state != Exited {
			n++
		}
	}
	s.mu.Unlock()
	raceEnable()
	return n
}

// TakePanics returns and clears the recorded SUT panics.
//
//go:norace
func (s *Sched) TakePanics() []PanicInfo {
	raceDisable()
	s.mu.Lock()
	p := s.Panics
	s.Panics = nil
	s.mu.Unlock()
	raceEnable()
	return p
}
