//go:build !race

package simrt

import "unsafe"

const RaceEnabled = false

func raceDisable() {}
func raceEnable()  {}

func RaceDisable() {}
func RaceEnable()  {}

func RaceAcquire(p unsafe.Pointer)      {}
func RaceRelease(p unsafe.Pointer)      {}
func RaceReleaseMerge(p unsafe.Pointer) {}
