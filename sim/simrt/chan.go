package simrt

// Channel helpers used by the instrumenting overlay. Each performs the native operation
// between two scheduling points: the first gives the scheduler the chance to run another task
// before the operation, the second parks the task again directly after a (possibly blocking)
// native operation, so that a goroutine woken by another task's action touches no SUT state
// before the scheduler releases it.

func Send[T any](c chan<- T, v T) {
	YieldOp("send")
	c <- v
	YieldOp("sent")
}

func Recv[T any](c <-chan T) T {
	YieldOp("recv")
	v := <-c
	YieldOp("recvd")
	return v
}

func Recv2[T any](c <-chan T) (T, bool) {
	YieldOp("recv")
	v, ok := <-c
	YieldOp("recvd")
	return v, ok
}

func Close[T any](c chan<- T) {
	YieldOp("close")
	close(c)
}

// ZeroOf returns zero values typed after the channel's element type; the select rewrite uses
// it to declare its temporaries without naming types.
func ZeroOf[T any](c <-chan T) (T, bool) {
	var z T
	return z, false
}

// PollOrder returns the order in which the cases of a select with n communication clauses
// are polled: the scheduler chooses which case is tried first (0 = source order).
func PollOrder(n int) []int {
	out := make([]int, n)
	first := 0
	if Active() && n > 1 {
		first = Choose("select", n)
	}
	out[0] = first
	k := 1
	for i := 0; i < n; i++ {
		if i != first {
			out[k] = i
			k++
		}
	}
	return out
}

// MapKeys returns the keys of m in a deterministic order (insertion order is not available for
// built-in maps, so keys are sorted by their formatted value; pointer keys by first use).
func MapKeys[K comparable, V any](m map[K]V) []K {
	keys := make([]K, 0, len(m))
	for k := range m {
		keys = append(keys, k)
	}
	sortKeys(keys)
	return keys
}
