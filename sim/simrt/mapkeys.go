package simrt

import (
	"fmt"
	"reflect"
	"sort"
	"sync"
)

var (
	ptrOrderMu sync.Mutex
	ptrOrder   = map[interface{}]int{}
	ptrNext    int
)

// ResetPtrOrder forgets first-seen numbering of pointer keys (called between runs).
func ResetPtrOrder() {
	ptrOrderMu.Lock()
	ptrOrder = map[interface{}]int{}
	ptrNext = 0
	ptrOrderMu.Unlock()
}

// NotePtr numbers a pointer key at the moment it is stored in a map (program order, hence
// deterministic); MapKeys orders pointer keys by this number.
func NotePtr(k interface{}) { ptrRank(k) }

func ptrRank(k interface{}) int {
	ptrOrderMu.Lock()
	defer ptrOrderMu.Unlock()
	if r, ok := ptrOrder[k]; ok {
		return r
	}
	ptrNext++
	ptrOrder[k] = ptrNext
	return ptrNext
}

func sortKeys[K comparable](keys []K) {
	if len(keys) < 2 {
		return
	}
	var zero K
	switch reflect.TypeOf(zero).Kind() {
	case reflect.Ptr, reflect.UnsafePointer, reflect.Chan:
		// Addresses differ between runs: order by first appearance in this run. Keys never seen
		// before are numbered in the (arbitrary) order of this call; such maps (listeners,
		// clients at teardown) are only ranged over when the order is immaterial.
		ranks := make([]int, len(keys))
		for i, k := range keys {
			ranks[i] = ptrRank(k)
		}
		sort.Sort(&byRank[K]{keys, ranks})
	case reflect.String:
		sort.Slice(keys, func(i, j int) bool {
			return reflect.ValueOf(keys[i]).String() < reflect.ValueOf(keys[j]).String()
		})
	case reflect.Int, reflect.Int8, reflect.Int16, reflect.Int32, reflect.Int64:
		sort.Slice(keys, func(i, j int) bool {
			return reflect.ValueOf(keys[i]).Int() < reflect.ValueOf(keys[j]).Int()
		})
	case reflect.Uint, reflect.Uint8, reflect.Uint16, reflect.Uint32, reflect.Uint64, reflect.Uintptr:
		sort.Slice(keys, func(i, j int) bool {
			return reflect.ValueOf(keys[i]).Uint() < reflect.ValueOf(keys[j]).Uint()
		})
	default:
		sort.Slice(keys, func(i, j int) bool {
			return fmt.Sprintf("%#v", keys[i]) < fmt.Sprintf("%#v", keys[j])
		})
	}
}

type byRank[K any] struct {
	keys  []K
	ranks []int
}

func (b *byRank[K]) Len() int           { return len(b.keys) }
func (b *byRank[K]) Less(i, j int) bool { return b.ranks[i] < b.ranks[j] }
func (b *byRank[K]) Swap(i, j int) {
	b.keys[i], b.keys[j] = b.keys[j], b.keys[i]
	b.ranks[i], b.ranks[j] = b.ranks[j], b.ranks[i]
}

// Process-wide state of the code under test (package-level variables: a free list, a pool, a
// semaphore channel, a cache) is initialised when the package is, outside any bubble: a channel
// among it cannot be used inside a bubble created later (or blocks invisibly to the bubble's
// quiescence detection), and whatever it holds would leak from one run into the next. The overlay
// registers, per variable, a function that initialises it again (in the compiler's initialisation
// order); the harness calls them inside the bubble at the start of every run.
type globalReset struct {
	order int
	fn    func()
}

var (
	globalResets       []globalReset
	globalResetsSorted bool
)

func RegisterResetAt(order int, fn func()) {
	globalResets = append(globalResets, globalReset{order, fn})
	globalResetsSorted = false
}

func ResetGlobals() {
	if !globalResetsSorted {
		sort.SliceStable(globalResets, func(i, j int) bool { return globalResets[i].order < globalResets[j].order })
		globalResetsSorted = true
	}
	for _, r := range globalResets {
		r.fn()
	}
}
