package simsync

import (
	"sync"

	"cqlsim/simrt"
)

// Map is an insertion-ordered replacement for sync.Map. Every operation is a scheduling
// point. Range snapshots the key list, visits the keys in an order chosen by the scheduler
// (0 = insertion order), re-loads each value and skips keys deleted meanwhile; keys stored
// after the snapshot are not visited. All of this is within sync.Map's documented latitude.
type Map struct {
	mu    sync.Mutex
	m     map[interface{}]*entry
	order []*entry
}

type entry struct {
	key, val interface{}
	deleted  bool
}

func (m *Map) yield(op string) {
	if simrt.Active() {
		simrt.YieldOp(op)
	}
}

func (m *Map) Load(key interface{}) (value interface{}, ok bool) {
	m.yield("Map.Load")
	m.mu.Lock()
	defer m.mu.Unlock()
	if e, ok := m.m[key]; ok {
		return e.val, true
	}
	return nil, false
}

func (m *Map) storeLocked(key, value interface{}) {
	if m.m == nil {
		m.m = map[interface{}]*entry{}
	}
	if e, ok := m.m[key]; ok {
		e.val = value
		return
	}
	e := &entry{key: key, val: value}
	m.m[key] = e
	m.order = append(m.order, e)
}

func (m *Map) deleteLocked(key interface{}) {
	if e, ok := m.m[key]; ok {
		e.deleted = true
		delete(m.m, key)
		if len(m.order) > 32 && len(m.order) > 4*len(m.m) {
			live := m.order[:0:0]
			for _, x := range m.order {
				if !x.deleted {
					live = append(live, x)
				}
			}
			m.order = live
		}
	}
}

func (m *Map) Store(key, value interface{}) {
	m.yield("Map.Store")
	m.mu.Lock()
	m.storeLocked(key, value)
	m.mu.Unlock()
}

func (m *Map) Clear() {
	m.yield("Map.Clear")
	m.mu.Lock()
	for _, e := range m.order {
		e.deleted = true
	}
	m.m = nil
	m.order = nil
	m.mu.Unlock()
}

func (m *Map) LoadOrStore(key, value interface{}) (actual interface{}, loaded bool) {
	m.yield("Map.LoadOrStore")
	m.mu.Lock()
	defer m.mu.Unlock()
	if e, ok := m.m[key]; ok {
		return e.val, true
	}
	m.storeLocked(key, value)
	return value, false
}

func (m *Map) LoadAndDelete(key interface{}) (value interface{}, loaded bool) {
	m.yield("Map.LoadAndDelete")
	m.mu.Lock()
	defer m.mu.Unlock()
	if e, ok := m.m[key]; ok {
		v := e.val
		m.deleteLocked(key)
		return v, true
	}
	return nil, false
}

func (m *Map) Delete(key interface{}) {
	m.yield("Map.Delete")
	m.mu.Lock()
	m.deleteLocked(key)
	m.mu.Unlock()
}

func (m *Map) Swap(key, value interface{}) (previous interface{}, loaded bool) {
	m.yield("Map.Swap")
	m.mu.Lock()
	defer m.mu.Unlock()
	if e, ok := m.m[key]; ok {
		previous, loaded = e.val, true
	}
	m.storeLocked(key, value)
	return
}

func (m *Map) CompareAndSwap(key, old, new interface{}) bool {
	m.yield("Map.CompareAndSwap")
	m.mu.Lock()
	defer m.mu.Unlock()
	if e, ok := m.m[key]; ok && e.val == old {
		e.val = new
		return true
	}
	return false
}

func (m *Map) CompareAndDelete(key, old interface{}) bool {
	m.yield("Map.CompareAndDelete")
	m.mu.Lock()
	defer m.mu.Unlock()
	if e, ok := m.m[key]; ok && e.val == old {
		m.deleteLocked(key)
		return true
	}
	return false
}

func (m *Map) Range(f func(key, value interface{}) bool) {
	m.yield("Map.Range")
	m.mu.Lock()
	snap := make([]*entry, 0, len(m.order))
	for _, e := range m.order {
		if !e.deleted {
			snap = append(snap, e)
		}
	}
	m.mu.Unlock()
	// rotation chosen by the scheduler: 0 = insertion order
	start := 0
	if simrt.Active() && len(snap) > 1 {
		start = simrt.Choose("maprange", len(snap))
	}
	for i := range snap {
		e := snap[(start+i)%len(snap)]
		m.mu.Lock()
		del, v := e.deleted, e.val
		m.mu.Unlock()
		if del {
			continue
		}
		if !f(e.key, v) {
			break
		}
	}
}
