// Package simsync provides API-compatible replacements for the sync types used by the SUT.
// Inside a simulation every operation is a scheduling point and blocking is done through the
// scheduler, so lock-level interleavings are chosen by the run's choice stream; outside a
// simulation the types behave like the real ones.
//
// Each lock wraps the real primitive, which is taken (always uncontended, because of the
// single-runner discipline) after the sim-level acquisition, so that the race detector sees
// the program's own acquire/release edges.
package simsync

import (
	"sync"

	"cqlsim/simrt"
)

type Locker = sync.Locker
type Pool = sync.Pool

// ---------------------------------------------------------------- Mutex

type Mutex struct {
	real   sync.Mutex
	locked bool
	sim    bool // acquired at sim level
	owner  *simrt.Task
	q      simrt.WaitQ
}

// Owner returns the task holding the lock (diagnostics).
func (m *Mutex) Owner() *simrt.Task { return m.owner }

//go:norace
func (m *Mutex) simAcquire() bool {
	if m.locked {
		return false
	}
	m.locked = true
	m.sim = true
	m.owner = simrt.Self()
	return true
}

//go:norace
func (m *Mutex) simRelease() bool {
	if !m.sim {
		return false
	}
	m.locked = false
	m.sim = false
	m.owner = nil
	m.q.WakeAll()
	return true
}

func (m *Mutex) Lock() {
	if simrt.Exiting() {
		return
	}
	if !simrt.Active() || simrt.Self() == nil {
		m.real.Lock()
		return
	}
	simrt.YieldOp("Mutex.Lock")
	for !m.simAcquire() {
		if simrt.Exiting() {
			return
		}
		simrt.Block(&m.q, m, "Mutex.Lock(blocked)")
	}
	m.real.Lock()
}

func (m *Mutex) TryLock() bool {
	if !simrt.Active() || simrt.Self() == nil {
		return m.real.TryLock()
	}
	simrt.YieldOp("Mutex.TryLock")
	if m.simAcquire() {
		m.real.Lock()
		return true
	}
	return false
}

func (m *Mutex) Unlock() {
	if simrt.Exiting() {
		return
	}
	if !m.isSim() {
		m.real.Unlock()
		return
	}
	m.real.Unlock()
	m.simRelease()
}

//go:norace
func (m *Mutex) isSim() bool { return m.sim }

// ---------------------------------------------------------------- RWMutex

// RWMutex models Go's writer preference: a pending writer blocks new readers; when a writer
// unlocks, the readers that were waiting at that moment are admitted before the next writer.
type RWMutex struct {
	real     sync.RWMutex
	writer   bool
	readers  int
	wwaiting int
	granted  int // readers admitted by the last writer unlock that have not resumed yet
	simUse   int // number of sim-level holders (readers + writer)
	wowner   *simrt.Task
	rq, wq   simrt.WaitQ
	rgen     uint64
}

func (rw *RWMutex) WriterOwner() *simrt.Task { return rw.wowner }

//go:norace
func (rw *RWMutex) tryR() bool {
	if rw.writer || rw.wwaiting > 0 {
		return false
	}
	rw.readers++
	rw.simUse++
	return true
}

//go:norace
func (rw *RWMutex) tryW() bool {
	if rw.writer || rw.readers > 0 {
		return false
	}
	rw.writer = true
	rw.simUse++
	rw.wowner = simrt.Self()
	return true
}

//go:norace
func (rw *RWMutex) addW(d int) { rw.wwaiting += d }

func (rw *RWMutex) RLock() {
	if simrt.Exiting() {
		return
	}
	if !simrt.Active() || simrt.Self() == nil {
		rw.real.RLock()
		return
	}
	simrt.YieldOp("RWMutex.RLock")
	if !rw.tryR() {
		for {
			if simrt.Exiting() {
				return
			}
			gen := rw.curGen()
			simrt.Block(&rw.rq, rw, "RWMutex.RLock(blocked)")
			if rw.takeGrant(gen) {
				break
			}
			if rw.tryR() {
				break
			}
		}
	}
	rw.real.RLock()
}

//go:norace
func (rw *RWMutex) curGen() uint64 { return rw.rgen }

// takeGrant: a reader that was waiting when a writer unlocked has already been counted.
//
//go:norace
func (rw *RWMutex) takeGrant(gen uint64) bool {
	if rw.rgen != gen && rw.granted > 0 {
		rw.granted--
		return true
	}
	return false
}

func (rw *RWMutex) TryRLock() bool {
	if !simrt.Active() || simrt.Self() == nil {
		return rw.real.TryRLock()
	}
	simrt.YieldOp("RWMutex.TryRLock")
	if rw.tryR() {
		rw.real.RLock()
		return true
	}
	return false
}

func (rw *RWMutex) RUnlock() {
	if simrt.Exiting() {
		return
	}
	if !rw.isSim() {
		rw.real.RUnlock()
		return
	}
	rw.real.RUnlock()
	rw.runlock()
}

//go:norace
func (rw *RWMutex) isSim() bool { return rw.simUse > 0 }

//go:norace
func (rw *RWMutex) runlock() {
	rw.readers--
	rw.simUse--
	if rw.readers == 0 {
		rw.wq.WakeAll()
	}
}

func (rw *RWMutex) Lock() {
	if simrt.Exiting() {
		return
	}
	if !simrt.Active() || simrt.Self() == nil {
		rw.real.Lock()
		return
	}
	simrt.YieldOp("RWMutex.Lock")
	if !rw.tryW() {
		rw.addW(1)
		for {
			if simrt.Exiting() {
				rw.addW(-1)
				return
			}
			simrt.Block(&rw.wq, rw, "RWMutex.Lock(blocked)")
			if rw.tryW() {
				break
			}
		}
		rw.addW(-1)
	}
	rw.real.Lock()
}

func (rw *RWMutex) TryLock() bool {
	if !simrt.Active() || simrt.Self() == nil {
		return rw.real.TryLock()
	}
	simrt.YieldOp("RWMutex.TryLock")
	if rw.tryW() {
		rw.real.Lock()
		return true
	}
	return false
}

func (rw *RWMutex) Unlock() {
	if simrt.Exiting() {
		return
	}
	if !rw.isSim() {
		rw.real.Unlock()
		return
	}
	rw.real.Unlock()
	rw.wunlock()
}

//go:norace
func (rw *RWMutex) wunlock() {
	rw.writer = false
	rw.wowner = nil
	rw.simUse--
	// Readers waiting now are admitted before any further writer, as in sync.RWMutex.
	n := rw.rq.Len()
	if n > 0 {
		rw.readers += n
		rw.simUse += n
		rw.granted += n
		rw.rgen++
		rw.rq.WakeAll()
	} else {
		rw.wq.WakeAll()
	}
}

func (rw *RWMutex) RLocker() Locker { return (*rlocker)(rw) }

type rlocker RWMutex

func (r *rlocker) Lock()   { (*RWMutex)(r).RLock() }
func (r *rlocker) Unlock() { (*RWMutex)(r).RUnlock() }

// ---------------------------------------------------------------- WaitGroup

type WaitGroup struct {
	real sync.WaitGroup
	n    int
	q    simrt.WaitQ
}

//go:norace
func (wg *WaitGroup) add(d int) int {
	wg.n += d
	if wg.n < 0 {
		panic("sync: negative WaitGroup counter")
	}
	if wg.n == 0 {
		wg.q.WakeAll()
	}
	return wg.n
}

//go:norace
func (wg *WaitGroup) count() int { return wg.n }

func (wg *WaitGroup) Add(delta int) {
	if simrt.Exiting() {
		return
	}
	if simrt.Active() {
		simrt.YieldOp("WaitGroup.Add")
	}
	wg.real.Add(delta) // keeps the race detector's release edge of Done
	wg.add(delta)
}

func (wg *WaitGroup) Done() { wg.Add(-1) }

func (wg *WaitGroup) Go(f func()) {
	wg.Add(1)
	simrt.Go("WaitGroup.Go", func() {
		defer wg.Done()
		f()
	})
}

func (wg *WaitGroup) Wait() {
	if simrt.Exiting() {
		return
	}
	if !simrt.Active() || simrt.Self() == nil {
		wg.real.Wait()
		return
	}
	simrt.YieldOp("WaitGroup.Wait")
	for wg.count() > 0 {
		if simrt.Exiting() {
			return
		}
		simrt.Block(&wg.q, wg, "WaitGroup.Wait(blocked)")
	}
	wg.real.Wait() // counter is zero: returns at once, acquire edge for the race detector
}

// ---------------------------------------------------------------- Once

type Once struct {
	real    sync.Mutex
	done    bool
	running bool
	q       simrt.WaitQ
}

//go:norace
func (o *Once) state() (done, running bool) { return o.done, o.running }

//go:norace
func (o *Once) set(done, running bool) {
	o.done, o.running = done, running
	if done {
		o.q.WakeAll()
	}
}

func (o *Once) Do(f func()) {
	if simrt.Exiting() {
		return
	}
	if !simrt.Active() || simrt.Self() == nil {
		o.real.Lock()
		defer o.real.Unlock()
		if d, _ := o.state(); !d {
			defer o.set(true, false)
			f()
		}
		return
	}
	simrt.YieldOp("Once.Do")
	for {
		done, running := o.state()
		if done {
			o.real.Lock() // acquire edge
			o.real.Unlock()
			return
		}
		if !running {
			break
		}
		if simrt.Exiting() {
			return
		}
		simrt.Block(&o.q, o, "Once.Do(blocked)")
	}
	o.set(false, true)
	o.real.Lock()
	defer func() {
		o.real.Unlock()
		o.set(true, false)
	}()
	f()
}

func OnceFunc(f func()) func() {
	var o Once
	return func() { o.Do(f) }
}

func OnceValue[T any](f func() T) func() T {
	var o Once
	var v T
	return func() T { o.Do(func() { v = f() }); return v }
}

func OnceValues[T1, T2 any](f func() (T1, T2)) func() (T1, T2) {
	var o Once
	var v1 T1
	var v2 T2
	return func() (T1, T2) { o.Do(func() { v1, v2 = f() }); return v1, v2 }
}

// ---------------------------------------------------------------- Cond

// Cond is implemented over the sim wait queue; Wait releases L and blocks through the scheduler.
type Cond struct {
	L Locker
	q simrt.WaitQ
	// fallback for use outside a simulation
	once sync.Once
	real *sync.Cond
}

func NewCond(l Locker) *Cond { return &Cond{L: l} }

func (c *Cond) fallback() *sync.Cond {
	c.once.Do(func() { c.real = sync.NewCond(c.L) })
	return c.real
}

func (c *Cond) Wait() {
	if !simrt.Active() || simrt.Self() == nil {
		c.fallback().Wait()
		return
	}
	c.L.Unlock()
	if !simrt.Exiting() {
		simrt.Block(&c.q, c, "Cond.Wait")
	}
	c.L.Lock()
}

func (c *Cond) Signal() { c.Broadcast() } // spurious wake-ups are allowed by callers that loop

func (c *Cond) Broadcast() {
	if !simrt.Active() {
		c.fallback().Broadcast()
		return
	}
	simrt.YieldOp("Cond.Broadcast")
	c.q.WakeAll()
}
